#!/bin/sh
# offline setup: make sure hypothesis is importable in /venv (wheelhouse only), byte-compile nothing else
here=$(cd "$(dirname "$0")" && pwd)
/venv/bin/python -c "import hypothesis" 2>/dev/null || \
  /venv/bin/pip install --no-index --find-links /opt/veriftools/wheels hypothesis >/dev/null 2>&1 || \
  /venv/bin/pip install --no-index --find-links /opt/veriftools/wheels --target "$here/.deps" hypothesis
/venv/bin/python -c "import hypothesis, textx, arpeggio; print('setup ok: hypothesis', hypothesis.__version__)"
