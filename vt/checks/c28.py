"""C28 - model loading errors point at the offending text.

Domain : generated single- and multi-file models (vt.gen.files) with exactly one injected error of a
         kind in {syntax (a stray token no rule can match), unknown object, non-unique name,
         unresolvable postponed reference}, located in the main file or in an imported file, with a
         generated layout (blank lines, indentation, comments) so that line and column vary; string
         loads for single files.
Oracle : e.filename == path of the file that contains the injected text (None for string loads);
         (e.line, e.col) == independent line/column of the injected token's offset in *that* file.
"""
import os
import shutil
import tempfile

from hypothesis import strategies as st

from vt.gen import files as F
from vt.gen.writer import linecol
from vt.harness import Outcome

ID = "C28"
LEVEL = "exploration"
CASES = {"quick": 2500, "thorough": 120000}
KINDS = ["syntax", "unknown_object", "not_unique", "unresolvable_postponed"]
GAPS = ["\n", "\n", "\n\n", "\n   ", "\n// a comment\n", "\n\t", "\n\n  // x\n "]
RULE = ("generated import graphs (1-4 files) x error kind x file carrying the error (any file of the closure) x position of the "
        "stray token x generated layout x load from file / from string (single file). non-trivial: the error is in an imported "
        "file and not on line 1; distinct by canonical JSON")
ASSUMPTIONS = [
    "the stray token '%%' cannot be matched by any rule, so the furthest failure position is its offset",
    "exactly one error is injected, so 'the offending text' is unambiguous",
]
LEVEL_TEXT = ("Generated models with one injected error; reported file name, line and column compared with the generator's "
              "own offset and an independent line/column computation.")
LEVEL_NOTE = "Trusts the text generator's bookkeeping of where the offending token was written."
TECHNIQUE = "property-based testing (Hypothesis) with injected errors at recorded offsets"
DESIGN_REF = "DESIGN.md section 4 C28"


@st.composite
def cases(draw):
    g = draw(F.file_graphs(max_files=4, allow_glob=False, allow_lib=False))
    return {"graph": g, "kind": draw(st.sampled_from(KINDS)), "file_pick": draw(st.integers(0, 10)),
            "tok_pick": draw(st.integers(0, 40)), "layout": draw(st.lists(st.integers(0, len(GAPS) - 1), min_size=1, max_size=8)),
            "from_string": draw(st.booleans()), "provider": draw(st.sampled_from(["plain", "fqn"]))}


def strategy(tier):
    return cases()


def relayout(text, layout):
    lines = [l for l in text.split("\n") if l]
    out = ""
    for i, l in enumerate(lines):
        out += GAPS[layout[i % len(layout)]] if (i or layout[0] > 1) else ""
        out += l
    return out + "\n"


def evaluate(case):
    from textx import metamodel_from_str
    from textx.exceptions import TextXError
    from textx.scoping import Postponed
    from textx.scoping import providers as P

    out = Outcome()
    g = case["graph"]
    kind = case["kind"]
    cl = F.closure(g, 0)
    single = case["from_string"]
    bad = 0 if single else cl[case["file_pick"] % len(cl)]
    fqn = case["provider"] == "fqn" and kind != "not_unique"
    marker = {"syntax": "%%", "unknown_object": "nowhere", "not_unique": "dupname", "unresolvable_postponed": "waitforever"}[kind]
    extra = {}
    if kind == "unknown_object":
        # in a single reference, or as a later element of a reference list
        shape = case["tok_pick"] % 3
        lead = "" if shape == 0 else (f"d{bad}_0 , " if shape == 1 else f"d{bad}_0 , d{bad}_0 , ")
        extra[bad] = ("", f"use ubad -> {lead}nowhere\n")
    elif kind == "not_unique":
        extra[bad] = ("def dupname\ndef other { def dupname }\n", "use udup -> dupname\n")
    elif kind == "unresolvable_postponed":
        extra[bad] = ("def waitforever\n", "use uwait -> waitforever\n")
    if single:
        gg = dict(g, n=1, edges=[], ndefs=g["ndefs"][:1], uses=[u for u in g["uses"] if u[0] == 0 and u[1] == 0])
    else:
        gg = g
    ts = F.texts(gg, fqn, extra=extra)
    ts = {i: relayout(t, case["layout"][i % len(case["layout"]):] + case["layout"]) for i, t in ts.items()}
    if kind == "syntax":
        # insert the stray token in front of a generated token of the chosen file
        t = ts[bad]
        import re

        toks = [m.start() for m in re.finditer(r"(?<![\w/])(import|def|use|->|\{|\}|[a-z]\w*)(?![\w])", t)
                if not t.rfind("//", t.rfind("\n", 0, m.start()) + 1, m.start()) >= 0
                and t.count('"', t.rfind("\n", 0, m.start()) + 1, m.start()) % 2 == 0]
        if not toks:
            out.inconclusive = "no_token"
            return out
        pos = toks[case["tok_pick"] % len(toks)]
        ts[bad] = t[:pos] + "%% " + t[pos:]
        off = pos
    else:
        # the offending text is the reference (last occurrence of the marker: the use line comes last)
        off = ts[bad].rfind(marker)
    exp_line, exp_col = linecol(ts[bad], off)
    mm = metamodel_from_str(F.grammar(":FQN" if fqn else "", fqn))

    class Prov(P.ImportURI):
        def __init__(self, inner):
            P.ImportURI.__init__(self, inner)

        def __call__(self, obj, attr, obj_ref):
            if kind == "unresolvable_postponed" and obj_ref.obj_name == "waitforever":
                return Postponed()
            return P.ImportURI.__call__(self, obj, attr, obj_ref)

    mm.register_scope_providers({"*.*": Prov(P.FQN() if fqn else P.PlainName())})
    tmp = os.path.realpath(tempfile.mkdtemp(prefix="vt-c28-"))
    try:
        exp_file = None
        err = None
        try:
            if single:
                mm.model_from_str(ts[0])
            else:
                os.makedirs(os.path.join(tmp, "lib"), exist_ok=True)
                for i, t in ts.items():
                    with open(F.fpath(gg, tmp, i), "w", newline="") as f:
                        f.write(t)
                exp_file = os.path.realpath(F.fpath(gg, tmp, bad))
                mm.model_from_file(F.fpath(gg, tmp, 0))
        except TextXError as e:
            err = e
        ctx = f"kind={kind} file={bad} single={single} provider={'fqn' if fqn else 'plain'} text={ts[bad]!r}"
        out.cls("kind:" + kind, "string" if single else ("main_file" if bad == 0 else "imported_file"))
        out.nontrivial = (not single) and bad != 0 and exp_line >= 2
        out.sample = {"kind": kind, "file": bad, "text": ts[bad], "expected": [exp_line, exp_col]}
        if err is None:
            return out.add("no_error/" + kind, ctx)
        want_type = "TextXSyntaxError" if kind == "syntax" else "TextXSemanticError"
        if type(err).__name__ != want_type:
            out.add("error_type/" + kind, ctx + f": {type(err).__name__}: {err}")
        got_file = os.path.realpath(err.filename) if err.filename else None
        where = "string" if single else ("main" if bad == 0 else "imported")
        if got_file != exp_file:
            out.add(f"filename/{kind}/{where}", ctx + f": filename {err.filename!r}, expected {exp_file!r}")
        if (err.line, err.col) != (exp_line, exp_col):
            out.add(f"position/{kind}/{where}", ctx + f": reported {(err.line, err.col)}, expected {(exp_line, exp_col)}: {err}")
        return out
    finally:
        shutil.rmtree(tmp, ignore_errors=True)
