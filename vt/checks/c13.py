"""C13 - object processors run once each, bottom-up, on a fully linked model.

Domain : generated grammars biased to abstract rules (nested, recursive and abstract containment),
         recording processors registered on every common, abstract and user match rule; a generated
         subset of the rules returns replacement values; optionally user classes.
Oracle : expected calls computed from the reference interpreter's model, asserted exactly as far as
         the statement goes: (i) multiset of (rule, object) calls - the processor of the object's own
         (common) rule once per object, the processor of an abstract rule D once per object stored in
         an attribute declared with D, nothing else for common/abstract rules (match-rule processors
         are registered but not counted); (ii) own rule before declared rule; (iii) every call for a
         contained object precedes every call for its container; user-class objects have completed
         __init__ when processed; (iv) a non-None return value replaces the object in its containing
         attribute / list slot, the own rule's value taking precedence.
"""
from hypothesis import strategies as st

from vt import dump as D
from vt.checks import c01
from vt.gen import grammar as G
from vt.gen import inputs as I
from vt.harness import Outcome
from vt.ref import peg

ID = "C13"
LEVEL = "exploration"
CASES = {"quick": 4000, "thorough": 200000}
RULE = ("generated grammars (3-6 rules, abstract-biased) x 4 derived inputs, processors on every rule, 0-2 rules whose "
        "processors return a replacement, 30% with user classes. non-trivial: an accepted input whose model has an "
        "abstract-typed containment attribute holding an object, containment depth >=2 and a replacement; distinct by "
        "canonical JSON")
ASSUMPTIONS = [
    "sibling order of processor calls is not asserted; processors of abstract rules between the declared rule and the "
    "object's rule are not expected",
    "a processor of an abstract rule is expected for model objects only, not for strings/numbers the rule may yield",
    "the root object's return value is not used",
]
LEVEL_TEXT = ("Generated grammars/models with recording processors; the call log and the resulting model are compared with "
              "expectations computed from the reference interpreter's model.")
LEVEL_NOTE = "Trusts the reference model (vt/ref/peg.py) and the attribute type table for 'declared with an abstract rule'."
TECHNIQUE = "property-based testing (Hypothesis) with recording processors against a reference model"
DESIGN_REF = "DESIGN.md section 4 C13"


@st.composite
def cases(draw):
    g = draw(G.grammars(max_rules=6, min_rules=3, modifiers=False, comments=False, eolterm=False,
                        kind_pool=["common", "common", "abstract", "abstract", "match"]))
    cfg = {"skipws": True, "ws": None, "auto_init_attributes": draw(st.booleans()), "use_regexp_group": False}
    texts = draw(I.inputs_for(g, cfg, n=4, mutate=False))
    names = [r["name"] for r in g["rules"]]
    if draw(st.integers(0, 9)) == 0:
        # multi-file loads with user classes: processors must see initialised objects of every file
        return {"kind": "imports", "nfiles": draw(st.integers(2, 3)), "styles": ["plain", draw(st.sampled_from(["plain", "frozen"]))],
                "bad_file": None, "fault": None, "as_callable": draw(st.booleans())}
    return {"g": g, "cfg": cfg, "inputs": texts, "replace_value": draw(st.sampled_from(["tag", "tag", 0, "", False])),
            "replace": sorted(draw(st.lists(st.sampled_from(names[1:] or names), min_size=draw(st.sampled_from([0, 1, 1, 2])),
                                            max_size=2, unique=True))),
            "userclasses": sorted(draw(st.lists(st.sampled_from(names), max_size=2, unique=True)))
            if draw(st.integers(0, 9)) < 3 else []}


def strategy(tier):
    return cases()


def evaluate(case):
    from textx.exceptions import TextXError

    out = Outcome()
    if case.get("kind") == "imports":
        from vt.checks import c14

        return c14.eval_imports(case, out)
    g, cfg = case["g"], case["cfg"]
    gtext = G.to_text(g)
    kinds = peg.kinds(g)
    ainfo = peg.attr_info(g)
    inited = set()
    classes = []
    for n in case["userclasses"]:
        if kinds[n] == "common":
            def init(self, **kw):
                for k, v in kw.items():
                    setattr(self, k, v)
                inited.add(id(self))

            classes.append(type(n, (object,), {"__init__": init}))
    ucnames = {c.__name__ for c in classes}
    try:
        mm = c01.make_metamodel(g, cfg, classes=classes)
    except TextXError as e:
        return out.add("grammar_rejected", f"{gtext!r}: {e}")
    log = []
    problems = []

    def mk(rule):
        kind = kinds[rule]

        def proc(o):
            if kind == "match":
                return o
            log.append((rule, id(o)))
            if type(o).__name__ in ucnames and id(o) not in inited:
                problems.append(f"processor of {rule} saw a user-class object before its __init__")
            if rule in case["replace"]:
                rv = case.get("replace_value", "tag")
                # also falsy values are replacements (only None means 'keep the object')
                return f"<{rule}:{type(o).__name__}>" if rv == "tag" else rv
            return None

        return proc

    mm.register_obj_processors({r["name"]: mk(r["name"]) for r in g["rules"]})
    out.sample = {"grammar": gtext, "inputs": case["inputs"][:2], "replace": case["replace"]}
    out.cls("userclasses" if classes else "generic_classes", f"replace={len(case['replace'])}")
    nt = False
    for text in case["inputs"]:
        res, it = peg.parse(g, cfg, text)
        if res[0] != "ok" or not isinstance(res[1], peg.Obj):
            continue
        del log[:]
        del problems[:]
        inited.clear()
        ctx = f"grammar={gtext!r} replace={case['replace']} input={text!r}"
        try:
            model = mm.model_from_str(text)
        except TextXError as e:
            out.add("load_failed/" + type(e).__name__, ctx + f": {e}")
            continue
        # pair reference objects with the textX objects seen by the processors: walk the reference model and the
        # call log in parallel is not possible once objects are replaced, so identify objects by (class, span)
        seen = {}
        for rule, oid in log:
            seen.setdefault(oid, []).append(rule)
        # expected calls from the reference model
        ref_objs = []  # (ref obj, container ref obj or None, declared type or None, depth)

        def collect(o, cont, decl, depth):
            ref_objs.append((o, cont, decl, depth))
            for a, v in o.attrs.items():
                for x in (v if isinstance(v, list) else [v]):
                    if isinstance(x, peg.Obj):
                        collect(x, o, ainfo[o.cls][a]["type"], depth + 1)

        collect(res[1], None, None, 0)
        exp_calls = {}
        for o, cont, decl, depth in ref_objs:
            calls = [o.cls]
            if decl is not None and decl != o.cls and decl in kinds and kinds[decl] == "abstract":
                calls.append(decl)
            exp_calls[id(o)] = calls
        exp_multiset = sorted(tuple(v) for v in exp_calls.values())
        got_multiset = sorted(tuple(v) for v in seen.values())
        if got_multiset != exp_multiset:
            # decide which sub-clause fails
            flat_e = sorted(r for v in exp_calls.values() for r in v)
            flat_g = sorted(r for v in seen.values() for r in v)
            if flat_e == flat_g:
                b = "calls/own_rule_not_before_declared_rule"
            elif len(flat_g) > len(flat_e):
                b = "calls/extra_or_repeated"
            else:
                b = "calls/missing"
            out.add(b, ctx + f": expected per-object call lists {exp_multiset}, got {got_multiset}")
            continue
        if problems:
            out.add("user_class_not_initialised", ctx + ": " + problems[0])
        # (iii) bottom-up: position of the last call of a child < position of the first call of its container.
        # identify textX objects through spans: map reference objects to object ids via (class, first call order)
        order = {}
        for i, (rule, oid) in enumerate(log):
            order.setdefault(oid, [i, i])[1] = i
        # reconstruct containment among logged objects from the reference model by matching in post-order:
        # the reference objects in post-order of their own-rule call must carry the same classes as the log
        post = []

        def po(o):
            for a, v in o.attrs.items():
                for x in (v if isinstance(v, list) else [v]):
                    if isinstance(x, peg.Obj):
                        po(x)
            post.append(o)

        po(res[1])
        own_calls = [(rule, oid) for rule, oid in log if oid in seen and seen[oid][0] == rule and
                     log.index((rule, oid)) == order[oid][0]]
        # bottom-up in the weak, order-independent form: for every reference object the number of own-rule calls that
        # precede its own call must be at least the number of its descendants
        desc = {}

        def count_desc(o):
            n = 0
            for a, v in o.attrs.items():
                for x in (v if isinstance(v, list) else [v]):
                    if isinstance(x, peg.Obj):
                        n += 1 + count_desc(x)
            desc[id(o)] = n
            return n

        count_desc(res[1])
        # match log objects to reference objects greedily by class in post-order (sibling order is free, but a
        # parent can only be matched after all of its descendants)
        remaining = list(post)
        ok = True
        done = set()
        for rule, oid in own_calls:
            cand = None
            for o in remaining:
                if o.cls != rule:
                    continue
                kids_done = all(id(x) in done for a, v in o.attrs.items() for x in (v if isinstance(v, list) else [v])
                                if isinstance(x, peg.Obj))
                if kids_done:
                    cand = o
                    break
            if cand is None:
                ok = False
                break
            remaining.remove(cand)
            done.add(id(cand))
        if not ok:
            out.add("order/container_processed_before_contained_object", ctx + f": call log {log}")
            continue
        # (iv) replacement: expected final model
        def expected_dump(o, root=False):
            d = {"cls": o.cls, "attrs": {}}
            for a, v in o.attrs.items():
                decl = ainfo[o.cls][a]["type"]

                def one(x):
                    if not isinstance(x, peg.Obj):
                        return D.dump_ref(x)
                    rv = case.get("replace_value", "tag")
                    if x.cls in case["replace"]:
                        return D.prim(f"<{x.cls}:{x.cls}>" if rv == "tag" else rv)
                    if decl != x.cls and decl in case["replace"] and kinds.get(decl) == "abstract":
                        return D.prim(f"<{decl}:{x.cls}>" if rv == "tag" else rv)
                    return expected_dump(x)

                d["attrs"][a] = [one(x) for x in v] if isinstance(v, list) else one(v)
            return d

        a_ = D.dump_textx(model)
        b_ = expected_dump(res[1], True)
        df = D.diff(a_, b_)
        if df:
            # recorded findings about match-rule values (F-C03b, F-C01e) are not this property's business
            known = False
            for quirk, _label in c01.QUIRKS:
                rq, _ = peg.parse(g, cfg, text, quirks=quirk)
                if rq[0] == "ok" and isinstance(rq[1], peg.Obj) and D.diff(a_, expected_dump(rq[1], True)) is None:
                    known = True
            if not known:
                out.add("replacement/" + df[0], ctx + f" at {df[1]}: textX {df[2]} expected")
        depth = max(d for _, _, _, d in ref_objs)
        has_abs = any(len(v) == 2 for v in exp_calls.values())
        if has_abs and depth >= 2 and case["replace"]:
            nt = True
        if has_abs:
            out.cls("abstract_typed_attribute_with_object")
    out.nontrivial = nt
    return out
