"""C19 - memoization never changes parse results.

Domain : generated grammars (all constructs, predicates, Comment rule; 70% 'mode-uniform' - no rule
         modifiers and no eolterm - and 30% with rules reachable under different whitespace modes)
         x derived and mutated inputs; every input is parsed by a metamodel without memoization
         and by one with memoization=True (all inputs in sequence on the same memoizing metamodel,
         the first input a second time at the end).
Oracle : differential: same acceptance; equal structural dumps; on rejection the same (line, col).
"""
from hypothesis import strategies as st

from vt import dump as D
from vt.checks import c01
from vt.gen import grammar as G
from vt.gen import inputs as I
from vt.harness import Outcome
from vt.ref import engine, peg

ID = "C19"
LEVEL = "exploration"
CASES = {"quick": 4000, "thorough": 300000}
RULE = ("generated grammars x configurations x 6 inputs (40% mutated), each parsed with memoization off and on (same "
        "memoizing metamodel for the whole sequence, first input repeated last); non-trivial: in the reference interpreter "
        "(a plain backtracking parser) some rule is attempted more than once at one position for some input; distinct by "
        "canonical JSON"
        " also: a grammar family whose alternatives start with the same rule referenced suppressed / assigned / plain")
ASSUMPTIONS = [
    "memoization must be observationally neutral; no reference semantics is involved (textX is compared with itself)",
    "grammars in which a rule is reachable under two whitespace modes (rule modifiers, eolterm) are bucketed separately: "
    "the engine's packrat cache is keyed by position only (recorded finding F-C19a)",
]
LEVEL_TEXT = ("Differential testing of the same generated grammar/input with memoization off and on, including sequences of "
              "loads on one memoizing metamodel.")
LEVEL_NOTE = "Trusts nothing but the structural dump; the reference interpreter is used only to classify backtracking."
TECHNIQUE = "property-based differential testing (Hypothesis): memoization on vs off"
DESIGN_REF = "DESIGN.md section 4 C19"


@st.composite
def cases(draw):
    uniform = draw(st.integers(0, 9)) < 7
    g = draw(G.grammars(modifiers=not uniform, eolterm=not uniform))
    cfg = draw(G.configs())
    texts = draw(I.inputs_for(g, cfg, n=6))
    return {"g": g, "cfg": cfg, "inputs": texts}


CONTS = [("name=ID ';'", ["x", "y1"]), ("val=INT ';'", ["5", "42"]), ("s=STRING ';'", ['"a"', "'b'"]), ("'!' flag?='on' ';'", ["!", "! on"])]


@st.composite
def prefix_cases(draw):
    """alternatives that start with the same rule at the same position - referenced suppressed (Kw-), assigned (k=Kw) or
    plain - so that with memoization the second alternative finds the first one's cache entry for that rule"""
    kw_kind = draw(st.sampled_from(["common", "match"]))
    prefixes = ["Kw-", "k=Kw"] + (["Kw"] if kw_kind == "match" else [])
    n = draw(st.integers(2, 3))
    conts = draw(st.permutations(range(len(CONTS))))[:n]
    alts = [[draw(st.sampled_from(prefixes)), c] for c in conts]
    items = st.tuples(st.integers(0, n - 1), st.sampled_from(["def", "let"]), st.integers(0, 1)).map(list)
    inputs = draw(st.lists(st.lists(items, min_size=1, max_size=5), min_size=2, max_size=4))
    return {"kind": "prefix", "kw_kind": kw_kind, "alts": alts, "inputs": inputs, "break": draw(st.integers(0, 3))}


def strategy(tier):
    return st.one_of(cases(), cases(), cases(), cases(), prefix_cases())


def eval_prefix(case):
    from textx import metamodel_from_str

    out = Outcome()
    kw = "Kw: kw=KwTok;\nKwTok: 'def' | 'let';" if case["kw_kind"] == "common" else "Kw: 'def' | 'let';"
    gtext = "Model: items+=Item;\nItem: " + " | ".join(f"{p} {CONTS[c][0]}" for p, c in case["alts"]) + ";\n" + kw + "\n"
    texts = []
    for k, seq in enumerate(case["inputs"]):
        toks = [f"{word} {CONTS[case['alts'][ai][1]][1][vi]}" + ("" if CONTS[case['alts'][ai][1]][1][vi].startswith("!") else "") + " ;"
                for ai, word, vi in seq]
        t = " ".join(toks)
        if k == case["break"]:
            t = t[:-1]  # the last ';' is missing: a rejected input between the others
        texts.append(t)
    out.sample = {"grammar": gtext, "inputs": texts}
    out.cls("kind:shared_prefix", "kw:" + case["kw_kind"])
    kinds = {p for p, _ in case["alts"]}
    out.nontrivial = len(kinds) >= 2
    plain = metamodel_from_str(gtext, memoization=False)
    memo = metamodel_from_str(gtext, memoization=True)
    for i, text in enumerate(texts + texts[:1]):
        a, b = outcome(plain, text), outcome(memo, text)
        ctx = f"grammar={gtext!r} input={text!r} (load #{i + 1} on the memoizing metamodel)"
        if a[0] != b[0]:
            out.add(f"acceptance/{a[0]}_without_{b[0]}_with_memoization", ctx + f": without {a}, with {b}")
        elif a[0] == "ok":
            df = D.diff(b[1], a[1])
            if df:
                out.add("model_differs/" + df[0], ctx + f" at {df[1]}: with memoization {df[2]} without")
        elif a[1] != b[1]:
            out.add("error_position", ctx + f": without {a[1]}, with {b[1]}")
    return out


def mixed_modes(g):
    for r in g["rules"]:
        m = r.get("mods") or {}
        if m.get("skipws") is not None or m.get("ws") is not None:
            return True
        for e in G.walk(r["body"]):
            if (e[0] in ("star", "plus") and e[3]) or (e[0] == "asg" and e[5]):
                return True
    return False


def outcome(mm, text):
    from textx.exceptions import TextXSemanticError, TextXSyntaxError

    try:
        return ("ok", D.dump_textx(mm.model_from_str(text)))
    except TextXSyntaxError as e:
        return ("syntax", (e.line, e.col))
    except TextXSemanticError as e:
        return ("semantic", (getattr(e, "err_type", None), e.line, e.col))


def evaluate(case):
    from textx.exceptions import TextXError

    if case.get("kind") == "prefix":
        return eval_prefix(case)
    out = Outcome()
    g, cfg = case["g"], case["cfg"]
    gtext = G.to_text(g)
    try:
        plain = c01.make_metamodel(g, cfg, memoization=False)
        memo = c01.make_metamodel(g, cfg, memoization=True)
    except TextXError as e:
        return out.add("grammar_rejected", f"{gtext!r}: {e}")
    sfx0 = "/mixed_whitespace_modes" if mixed_modes(g) else ""
    out.cls("mixed_modes" if sfx0 else "mode_uniform")
    out.sample = {"grammar": gtext, "cfg": cfg, "inputs": case["inputs"][:3]}
    backtracks = False
    seq = list(case["inputs"]) + case["inputs"][:1]
    for i, text in enumerate(seq):
        if i < len(case["inputs"]):
            res, it = peg.parse(g, cfg, text)
            if any(v > 1 for v in it.rule_calls.values()):
                backtracks = True
        a = outcome(plain, text)
        b = outcome(memo, text)
        ctx = f"grammar={gtext!r} cfg={cfg} input={text!r} (load #{i + 1} on the memoizing metamodel)"
        sfx = sfx0
        if sfx0 and (a[0] != b[0] or a[1] != b[1]):
            # causal attribution to the recorded engine finding F-C19a: with one cache per whitespace mode the
            # memoizing parser must agree with the plain one; only then is the disagreement put down to the
            # mode-blind cache key
            with engine.mode_aware_memoization():
                b2 = outcome(memo, text)
            same = b2[0] == a[0] and (b2[1] == a[1] if a[0] != "ok" else D.diff(b2[1], a[1]) is None)
            sfx = "/engine:mode_blind_cache" if same else ""
        known = sfx == "/engine:mode_blind_cache"
        if a[0] != b[0]:
            out.add("acceptance" + sfx if known else f"acceptance/{a[0]}_without_{b[0]}_with_memoization",
                    ctx + f": without {a}, with {b}")
        elif a[0] == "ok":
            df = D.diff(b[1], a[1])
            if df:
                out.add("model_differs" + sfx if known else "model_differs/" + df[0],
                        ctx + f" at {df[1]}: with memoization {df[2]} without")
        elif a[1] != b[1]:
            out.add("error_position" + sfx, ctx + f": without {a[1]}, with {b[1]}")
    if backtracks:
        out.cls("backtracking")
    out.nontrivial = backtracks
    return out
