"""C23 - invalid grammars are always reported as textX errors.

Domain : grammar texts: valid generated grammars (vt.gen.grammar) printed to text, then 0-4
         token-level mutations - drop / duplicate / swap tokens, replace a token by one from a pool of
         troublemakers (undefined rule names, operators in odd places, invalid regular expressions,
         bad escapes, rule modifiers with and without values, '#' on references and matches,
         directly and mutually recursive rule definitions, malformed RREL, base type names as rule
         names) - plus a pool of hand-written seeds around each documented construct.
Oracle : metamodel_from_str returns a metamodel, or raises a TextXError subclass carrying a non-empty
         message; any other exception type is a discrepancy, bucketed by exception type and the
         innermost textx frame.  The documented exception (AssertionError for an import statement in a
         grammar given as a string) is excluded by construction: 'import' is never generated.
"""
import re

from hypothesis import strategies as st

from vt.gen import grammar as G
from vt.harness import Outcome, exc_bucket, under_test_frame

ID = "C23"
LEVEL = "exploration"
CASES = {"quick": 8000, "thorough": 500000}
POOL = ["#", "-", "?", "*", "+", "|", "(", ")", "[", "]", ";", ":", "=", "+=", "*=", "?=", "!", "&", ",", "Undefined", "R0", "R1",
        "INT", "ID", "OBJECT", "'x'", "''", '"\\N{foo}"', "'\\x'", "'\\u12'", "/(/", "/[/", "/a**/", "/\\/", "/(?P<n>a)(?P<n>b)/",
        "[nosplit]", "[nows]", "[noskipws, nosplit]", "[nofoo]", "[ws]", "[skipws=3]", "[ws=' ', split]", "[split='']", "[foo]", "[noskipws, ws='\\t']", "eolterm", "[',' eolterm]",
        "[eolterm ',']", "[Undefined]", "[R0:Undefined]", "[R0|..*]", "[R0:ID|+x:a]", "[R0:ID|^^]", "[INT]", "a=R0", "a+=[R0]",
        "Comment", "name", "42", "\\", "'", '"', "//", "/*", "A[", "]#", "#[','", "-?", "?-", "\x00", "é", "𝔘"]
SEEDS = ["A[nows]: 'a';", "A[noskipws, nosplit]: 'a' 'b';", "__asgn_plain: 'x' 'y';", "A: B#; B: 'b';", "A[ws]: 'a';", "A: A;", "A: B; B: A;", "A: /(/;", 'A: "\\N{foo}";', "A: a=B#; B: 'b' 'c';",
         "A: ('a' 'b')#[eolterm];", "A: a?=INT a=INT;", "A: (a?=INT)*;", "A: 'a'?[','];", "A: a=INT[','];", "A: a=[INT];",
         "A[split=3]: 'a';", "A: a+=[A:ID|];", "Comment: A; A: 'a';", "A: B; B: C; C: A | 'x';", "A: a=A;", "A: !A 'a';",
         "A: ;", ";", "A", "A:", "A: 'a'", "A: 'a';; ", "A: [A];", "A: a=[A] a=INT;", "ID: 'a';", "A: 'a'; A: 'b';",
         "A: x=B; B: x=A | 'e';", "A: 'a'#;", "A: /a/#;", "A: (B)#; B: 'b';", "A: B+#; B: 'b';"]
RULE = ("(0) one-rule grammars whose regular expression is assembled from a pool of regex pieces with quantifiers up to 2**70, "
        "and alias graphs (2-6 rules that are plain references to each other, so that cycles are entered through other aliases), "
        "(a) generated valid grammars printed to text with 0-4 token mutations (drop/duplicate/swap/replace-from-pool/insert), "
        "(b) hand-written seed texts with 0-2 such mutations; non-trivial: the text passes the grammar's syntax (it is accepted "
        "or the error is semantic) or fails beyond the first rule; distinct by canonical JSON")
ASSUMPTIONS = [
    "'import' statements are never generated (documented AssertionError for string grammars)",
    "texts are short (<= ~600 characters): a RecursionError is attributed to the grammar, not to its size",
]
LEVEL_TEXT = ("Robustness fuzzing of the grammar compiler with structured (token-level) mutations of generated valid "
              "grammars; exception-type oracle with bucketing by type and raising frame.")
LEVEL_NOTE = "Trusts only the exception-type contract; coverage-guided byte fuzzing (atheris) is not used in the registered tiers."
TECHNIQUE = "structured mutation fuzzing (Hypothesis) with an exception-type oracle"
DESIGN_REF = "DESIGN.md section 4 C23"
TOKEN = re.compile(r"""'(?:\\.|[^'])*'|"(?:\\.|[^"])*"|/(?:\\/|[^/\n])+/|\w+|\+=|\*=|\?=|->|\S""")


RE_ATOMS = ["a", "b", "\\d", "\\w", ".", "[a-z]", "[z-a]", "[^\\]]", "(", ")", "(?:", "(?P<n>", "(?P=n)", "(?=", "(?!", "(?<=", "(?<!", "|",
            "\\1", "\\2", "(?i)", "(?i:", "(?(1)a|b)", "\\N{DIGIT ONE}", "\\N{nope}", "\\x4", "\\u12", "\\/", "\\\\", "^", "$", "\\b",
            "\\Z", "\\z", "[[:alpha:]]", "(?#c)", "(?P<1>", "(?P<n", "[", "\\"]


@st.composite
def regex_bodies(draw):
    parts = []
    for _ in range(draw(st.integers(1, 6))):
        parts.append(draw(st.sampled_from(RE_ATOMS)))
        q = draw(st.integers(0, 9))
        if q < 2:
            parts.append(draw(st.sampled_from(["*", "+", "?", "*?", "*+", "**", "+*"])))
        elif q < 5:
            lo = draw(st.integers(0, 2 ** 70))
            hi = draw(st.one_of(st.none(), st.integers(0, 2 ** 70)))
            parts.append("{%d}" % lo if hi is None else "{%d,%d}" % (lo, hi))
    body = "".join(parts)
    return body if body and not body.startswith("*") and "\n" not in body else "a" + body


@st.composite
def alias_graphs(draw):
    """rules that are plain references to other rules (aliases), with cycles reachable only through other aliases"""
    n = draw(st.integers(2, 6))
    rules = []
    for i in range(n):
        kind = draw(st.integers(0, 9))
        j = draw(st.integers(0, n - 1))
        k = draw(st.integers(0, n - 1))
        if kind < 6:
            body = f"R{j}"
        elif kind < 7:
            body = f"R{j} | R{k}"
        elif kind < 8:
            body = f"x+=R{j}"
        elif kind < 9:
            body = f"(R{j})"
        else:
            body = "'t'"
        rules.append(f"R{i}: {body};")
    return " ".join(rules)


@st.composite
def cases(draw):
    kind = draw(st.integers(0, 19))
    if kind < 3:
        return {"base": "A: /" + draw(regex_bodies()) + "/;", "muts": []}
    if kind < 6:
        return {"base": draw(alias_graphs()), "muts": []}
    if draw(st.integers(0, 9)) < 7:
        base = G.to_text(draw(G.grammars(max_rules=4)))
        nm = draw(st.integers(0, 4))
    else:
        base = draw(st.sampled_from(SEEDS))
        nm = draw(st.integers(0, 2))
    muts = [[draw(st.integers(0, 4)), draw(st.integers(0, 200)), draw(st.sampled_from(POOL))] for _ in range(nm)]
    return {"base": base, "muts": muts}


def strategy(tier):
    return cases()


def mutate(base, muts):
    if not muts:
        return base
    toks = TOKEN.findall(base)
    for op, idx, tok in muts:
        if not toks:
            toks = [tok]
            continue
        i = idx % len(toks)
        if op == 0:
            del toks[i]
        elif op == 1:
            toks.insert(i, toks[i])
        elif op == 2 and len(toks) > 1:
            j = (i + 1) % len(toks)
            toks[i], toks[j] = toks[j], toks[i]
        elif op == 3:
            toks[i] = tok
        else:
            toks.insert(i, tok)
    return " ".join(toks)


def evaluate(case):
    from textx import metamodel_from_str
    from textx.exceptions import TextXError, TextXSyntaxError

    out = Outcome()
    text = mutate(case["base"], case["muts"])
    if re.search(r"\bimport\b", text) or re.search(r"\breference\b", text):
        out.inconclusive = "import_statement"
        return out
    out.sample = {"grammar": text}
    # the same contract holds for every metamodel option; autokwd compiles keyword-like literals to regular expressions
    try:
        metamodel_from_str(text, autokwd=True, ignore_case=True)
    except TextXError:
        pass
    except RecursionError:
        pass  # reported by the default-option run below
    except Exception as e:  # noqa: BLE001
        out.cls("other_exception")
        return out.add(exc_bucket(e, "not_a_textx_error/autokwd"), f"grammar {text!r} (autokwd=True): {type(e).__name__}: {e}")
    try:
        metamodel_from_str(text)
        out.cls("accepted")
        out.nontrivial = bool(case["muts"])
        return out
    except TextXSyntaxError as e:
        out.cls("syntax_error")
        if not getattr(e, "message", None):
            out.add("error_without_message", f"{text!r}: {e!r}")
        out.nontrivial = (e.line or 1) > 1 or (e.col or 0) > 12
        return out
    except TextXError as e:
        out.cls("semantic_error")
        if not getattr(e, "message", None):
            out.add("error_without_message", f"{text!r}: {e!r}")
        out.nontrivial = True
        return out
    except RecursionError as e:
        out.cls("other_exception")
        fr = under_test_frame(e.__traceback__)
        return out.add(f"RecursionError@{fr[0] + ':' + fr[1] if fr else '?'}", f"grammar {text!r}")
    except Exception as e:  # noqa: BLE001
        out.cls("other_exception")
        return out.add(exc_bucket(e, "not_a_textx_error"), f"grammar {text!r}: {type(e).__name__}: {e}")
