"""C05 - containment links and the model navigation API are consistent.

Domain : (1) generated grammars (recursive and abstract containment, optionally with user classes for
             some common rules) and accepted inputs; (2) generated packages/classes models whose
             references (`extends`, attribute types) point back up the tree.  For every model:
             generated selectors (by class, by depth parity), should_follow predicates (all, not a
             class, depth bound), both traversal orders, several start objects.
Oracle : an independent walk of the *reference* containment tree (reference interpreter's model /
         the generator's own tree): parent of every contained object is its container, the root has
         no parent, get_model returns the root; get_children / get_children_of_type return exactly
         the expected objects, each once, every ancestor before (after, with children_first) its
         descendants, nothing below an object rejected by should_follow; get_parent_of_type is the
         nearest proper ancestor of that class; referenced objects never show up as extra children.
"""
from hypothesis import strategies as st

from vt import dump as D
from vt.checks import c01
from vt.gen import grammar as G
from vt.gen import inputs as I
from vt.gen import models as M
from vt.harness import Outcome
from vt.ref import peg

ID = "C05"
LEVEL = "exploration"
CASES = {"quick": 3000, "thorough": 150000}
RULE = ("(a) generated grammars (30% with user classes) x 4 derived inputs, (b) generated packages/classes models with "
        "upward references; per model 3 generated (selector, should_follow, order) queries from the root and from up to 3 "
        "inner objects, get_parent_of_type for every (object, class) pair. non-trivial: containment depth >=3 and a "
        "should_follow predicate that prunes a subtree, or a reference to an ancestor; also: user classes whose instances are falsy (__len__ == 0 / __bool__ False); distinct by canonical JSON")
ASSUMPTIONS = [
    "sibling order between different attributes is not asserted (only exactly-once and ancestor/descendant order)",
    "should_follow is consulted for contained objects, not for the start object of the search",
    "objects of a common rule that are parsed but not assigned to any attribute are not part of the model",
]
LEVEL_TEXT = ("Generated models and queries compared with an independent traversal of the reference containment tree.")
LEVEL_NOTE = "Trusts the reference tree (reference interpreter / model generator) and the pairing by equal structural dumps."
TECHNIQUE = "property-based testing (Hypothesis) against a reference tree walk"
DESIGN_REF = "DESIGN.md section 4 C05"


class RN:
    """reference node paired with the textX object"""
    __slots__ = ("obj", "cls", "kids", "depth", "parent")

    def __init__(self, obj, cls, depth, parent):
        self.obj, self.cls, self.depth, self.parent, self.kids = obj, cls, depth, parent, []

    def walk(self):
        yield self
        for k in self.kids:
            yield from k.walk()


@st.composite
def queries(draw, names):
    sel = draw(st.one_of(
        st.lists(st.sampled_from(names), min_size=1, max_size=3, unique=True).map(lambda l: ["cls", sorted(l)]),
        st.sampled_from([["depth", 0], ["depth", 1], ["all"]])))
    follow = draw(st.one_of(st.just(["all"]), st.just(["all"]),
                            st.sampled_from(names).map(lambda n: ["cls_not", n]),
                            st.integers(1, 3).map(lambda k: ["depth_lt", k])))
    return {"sel": sel, "follow": follow, "children_first": draw(st.booleans()), "start": draw(st.integers(0, 30)),
            "by_class_object": draw(st.booleans())}


@st.composite
def cases(draw):
    if draw(st.integers(0, 9)) < 6:
        g = draw(G.grammars(max_rules=5, min_rules=2, modifiers=False, comments=False, eolterm=False))
        cfg = {"skipws": True, "ws": None, "auto_init_attributes": draw(st.booleans()), "use_regexp_group": False}
        texts = draw(I.inputs_for(g, cfg, n=4, mutate=False))
        names = [r["name"] for r in g["rules"]]
        uc = draw(st.lists(st.sampled_from(names), max_size=2, unique=True)) if draw(st.integers(0, 9)) < 3 else []
        falsy_kind = draw(st.sampled_from([None, None, "len", "bool", "eq"])) if uc else None
        if falsy_kind == "eq":
            uc = names  # every common rule gets a value-equal user class: equal objects of one class are then frequent
        return {"kind": "grammar", "g": g, "cfg": cfg, "inputs": texts, "userclasses": sorted(uc),
                # user classes may be container-like: instances that are falsy (__len__ == 0 / __bool__ False)
                "falsy": falsy_kind,
                "queries": draw(st.lists(queries(names), min_size=3, max_size=3))}
    return {"kind": "classes", "model": draw(M.class_models(depth=2, max_top=3)),
            "queries": draw(st.lists(queries(["Package", "Cls", "Attr", "Model"]), min_size=3, max_size=3))}


def strategy(tier):
    return cases()


def pair_ref(ref_obj, tx_obj, depth=0, parent=None, problems=None):
    """parallel walk of the reference model (peg.Obj) and the textX model"""
    n = RN(tx_obj, ref_obj.cls, depth, parent)
    for a, v in ref_obj.attrs.items():
        tv = getattr(tx_obj, a)
        rv = v if isinstance(v, list) else [v]
        tl = tv if isinstance(tv, list) else [tv]
        for r, t in zip(rv, tl):
            if isinstance(r, peg.Obj):
                n.kids.append(pair_ref(r, t, depth + 1, n))
    return n


def pair_nodes(node, depth=0, parent=None):
    n = RN(node.obj, node.kind, depth, parent)
    for k in node.order:
        n.kids.append(pair_nodes(k, depth + 1, n))
    return n


def mk_sel(q):
    k = q["sel"]
    if k[0] == "cls":
        return lambda rn: rn.cls in k[1]
    if k[0] == "depth":
        return lambda rn: rn.depth % 2 == k[1]
    return lambda rn: True


def mk_follow(q):
    k = q["follow"]
    if k[0] == "cls_not":
        return lambda rn: rn.cls != k[1]
    if k[0] == "depth_lt":
        return lambda rn: rn.depth < k[1]
    return lambda rn: True


def expected(start, sel, follow):
    out = []

    def go(rn):
        if sel(rn):
            out.append(rn)
        for k in rn.kids:
            if follow(k):
                go(k)

    go(start)
    return out


def check_model(out, root, ctx, case):
    from textx import get_children, get_children_of_type, get_model, get_parent_of_type

    nodes = list(root.walk())
    by_id = {id(n.obj): n for n in nodes}
    depth = max(n.depth for n in nodes)
    # parent links / get_model
    for n in nodes:
        if n.parent is None:
            if hasattr(n.obj, "parent"):
                out.add("parent/root_has_parent", ctx)
        elif getattr(n.obj, "parent", None) is not n.parent.obj:
            out.add("parent/not_the_container", ctx + f": object of {n.cls} at depth {n.depth}")
        if get_model(n.obj) is not root.obj:
            out.add("get_model", ctx + f": get_model of a {n.cls} object is not the root")
    # get_parent_of_type
    classes = sorted({n.cls for n in nodes})
    for n in nodes:
        for c in classes:
            exp = None
            p = n.parent
            while p is not None:
                if p.cls == c:
                    exp = p
                    break
                p = p.parent
            got = get_parent_of_type(c, n.obj)
            if got is not (exp.obj if exp else None):
                out.add("get_parent_of_type/" + ("start_object_returned" if got is n.obj else "wrong_ancestor"),
                        ctx + f": get_parent_of_type({c!r}, {n.cls} at depth {n.depth})")
    pruned = False
    for q in case["queries"]:
        start = nodes[q["start"] % len(nodes)] if q["start"] % 3 else root
        sel, follow = mk_sel(q), mk_follow(q)
        exp = expected(start, sel, follow)
        if len(expected(start, sel, lambda rn: True)) != len(exp):
            pruned = True
        sel_tx = lambda o: id(o) in by_id and sel(by_id[id(o)])  # noqa: E731
        fol_tx = lambda o: id(o) not in by_id or follow(by_id[id(o)])  # noqa: E731
        extra = []
        try:
            if q["sel"][0] == "cls" and len(q["sel"][1]) == 1:
                typ = q["sel"][1][0]
                targ = type(next(n.obj for n in nodes if n.cls == typ)) if (q["by_class_object"] and any(
                    n.cls == typ for n in nodes)) else typ
                got = get_children_of_type(targ, start.obj, children_first=q["children_first"], should_follow=fol_tx)
                api = "get_children_of_type"
            else:
                got = get_children(lambda o: (extra.append(o) if id(o) not in by_id else None) or sel_tx(o), start.obj,
                                   children_first=q["children_first"], should_follow=fol_tx)
                api = "get_children"
        except Exception as e:  # noqa: BLE001
            out.add("navigation_raises/" + type(e).__name__, ctx + f": {q}: {e}")
            continue
        qd = f"{api} sel={q['sel']} follow={q['follow']} children_first={q['children_first']} start={start.cls}@{start.depth}"
        if extra:
            out.add(api + "/visits_object_outside_containment", ctx + f": {qd}: {extra[:2]!r}")
        if sorted(id(o) for o in got) != sorted(id(n.obj) for n in exp):
            miss = len([n for n in exp if all(n.obj is not o for o in got)])
            dup = len(got) - len({id(o) for o in got})
            kind = "duplicates" if dup else ("missing" if miss else "unexpected")
            if start is not root and not follow(start) and not got:
                kind = "start_object_filtered_by_should_follow"
            out.add(f"{api}/{kind}", ctx + f": {qd}: expected {len(exp)} objects, got {len(got)}")
            continue
        pos = {id(o): i for i, o in enumerate(got)}
        for n in exp:
            p = n.parent
            while p is not None:
                if id(p.obj) in pos and (pos[id(p.obj)] > pos[id(n.obj)]) != q["children_first"]:
                    out.add(f"{api}/order", ctx + f": {qd}")
                    p = None
                    break
                p = p.parent
    return depth, pruned


def evaluate(case):
    from textx.exceptions import TextXError

    out = Outcome()
    if case["kind"] == "classes":
        mm = _classes_mm()
        text, root = M.build_class_model(case["model"])
        try:
            model = mm.model_from_str(text)
        except TextXError as e:
            return out.add("model_rejected", f"{text!r}: {e}")
        M.bind(root, model)
        rn = pair_nodes(root)
        up = any(r is not None for n in root.walk() for r in n.refs.values())
        depth, pruned = check_model(out, rn, f"model={text!r}", case)
        out.cls("kind:classes")
        out.nontrivial = depth >= 3 and (pruned or up)
        out.sample = {"model": text, "queries": case["queries"]}
        return out
    g, cfg = case["g"], case["cfg"]
    gtext = G.to_text(g)
    kinds = peg.kinds(g)
    classes = []
    for n in case["userclasses"]:
        if kinds[n] == "common":
            def init(self, **kw):
                for k, v in kw.items():
                    setattr(self, k, v)

            ns = {"__init__": init}
            if case.get("falsy") == "len":
                ns["__len__"] = lambda self: 0
            elif case.get("falsy") == "bool":
                ns["__bool__"] = lambda self: False
            elif case.get("falsy") == "eq":
                # value equality: all instances of the class compare equal (identity must decide in traversals)
                ns["__eq__"] = lambda self, other: type(other) is type(self)
                ns["__hash__"] = lambda self: 7
            classes.append(type(n, (object,), ns))
    try:
        mm = c01.make_metamodel(g, cfg, classes=classes)
    except TextXError as e:
        return out.add("grammar_rejected", f"{gtext!r}: {e}")
    out.cls("kind:grammar", "userclasses" if classes else "generic_classes")
    if classes and case.get("falsy"):
        out.cls("falsy_user_class_instances")
    out.sample = {"grammar": gtext, "inputs": case["inputs"][:2], "queries": case["queries"]}
    nt = False
    for text in case["inputs"]:
        res, it = peg.parse(g, cfg, text)
        if res[0] != "ok" or not isinstance(res[1], peg.Obj):
            continue
        try:
            model = mm.model_from_str(text)
        except TextXError:
            continue  # acceptance is C01's business
        if c01.ref_diff(g, cfg, text, D.dump_textx(model), res[1]):
            continue
        rn = pair_ref(res[1], model)
        depth, pruned = check_model(out, rn, f"grammar={gtext!r} input={text!r}", case)
        if depth >= 2 and pruned:
            nt = True
    out.nontrivial = nt
    return out


_MM = None


def _classes_mm():
    global _MM
    if _MM is None:
        from textx import metamodel_from_str

        _MM = metamodel_from_str(M.GRAMMAR)
    return _MM
