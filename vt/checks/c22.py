"""C22 - whitespace and comments between tokens do not change the model.

Domain : generated grammars (with / without a Comment rule, noskipws and ws rule modifiers, global
         skipws / ws) and accepted inputs with insertions at token boundaries taken from the
         reference interpreter's token trace.
Oracle 1 (metamorphic): in a gap that lies in a skipping region (the terminal after it was matched
         with skipws on), duplicating an existing gap character that belongs to the active
         whitespace set, or inserting text matched by the Comment rule next to it, leaves acceptance
         and the model (minus positions) unchanged.
Oracle 2 (differential): arbitrary insertions at token boundaries - characters of the active set,
         whitespace that is not in the active set (under ws= / noskipws), comments - give exactly the
         reference interpreter's outcome ("only the characters of the active set are skipped").
"""
from hypothesis import strategies as st

from vt import dump as D
from vt.checks import c01
from vt.checks.c20 import run_textx
from vt.gen import grammar as G
from vt.gen import inputs as I
from vt.harness import Outcome
from vt.ref import engine, peg

ID = "C22"
LEVEL = "exploration"
CASES = {"quick": 3000, "thorough": 250000}
RULE = ("generated grammars (rule modifiers, global skipws/ws, Comment rules; no eolterm together with a Comment rule) x 5 "
        "derived inputs; for every accepted input up to 4 insertions at token boundaries chosen by generated indices: "
        "duplicate a gap character, insert a comment, insert ' ' / '\\t' / '\\n'. non-trivial: the grammar has a rule "
        "modifier or restricted ws, and an insertion point lies in front of a terminal matched under a mode different from "
        "the global one; distinct by canonical JSON")
ASSUMPTIONS = c01.ASSUMPTIONS[:3] + [
    "metamorphic oracle only in gaps whose following terminal was matched with skipws on and only with characters of the set "
    "active there (eolterm removes newlines from it)",
    "a line comment is inserted only directly before an existing newline; block comments anywhere in a skipping gap",
]
LEVEL_TEXT = ("Metamorphic (whitespace/comment insertion in skipping gaps) and differential (arbitrary insertions vs the "
              "reference interpreter) testing on generated grammars and inputs.")
LEVEL_NOTE = "Trusts the reference interpreter's token trace (gap start, mode in force) for placing insertions."
TECHNIQUE = "property-based metamorphic + differential testing (Hypothesis)"
DESIGN_REF = "DESIGN.md section 4 C22"


@st.composite
def cases(draw):
    g = draw(G.grammars(max_rules=5))
    cfg = draw(G.configs())
    texts = draw(I.inputs_for(g, cfg, n=5, mutate=False))
    picks = draw(st.lists(st.tuples(st.integers(0, 40), st.integers(0, 5)).map(list), min_size=4, max_size=4))
    return {"g": g, "cfg": cfg, "inputs": texts, "picks": picks}


def strategy(tier):
    return cases()


def active(mode):
    skipws, ws, eol = mode
    if eol:
        ws = ws.replace("\n", "").replace("\r", "")
    return ws


def evaluate(case):
    from textx.exceptions import TextXError

    out = Outcome()
    g, cfg = case["g"], case["cfg"]
    gtext = G.to_text(g)
    try:
        mm = c01.make_metamodel(g, cfg)
    except TextXError as e:
        return out.add("grammar_rejected", f"{gtext!r}: {e}")
    has_mod = any((r.get("mods") or {}) for r in g["rules"]) or cfg.get("ws") is not None or not cfg.get("skipws", True)
    out.cls("has_mode_change" if has_mod else "global_mode_only", "comment:" + str(g.get("comment")))
    out.sample = {"grammar": gtext, "cfg": cfg, "inputs": case["inputs"][:2]}
    nt = False
    global_mode = None
    for text in case["inputs"]:
        res, it = peg.parse(g, cfg, text)
        if res[0] != "ok" or res[1] is None:
            continue
        global_mode = it.mode0
        base = run_textx(mm, text)
        ctx0 = f"grammar={gtext!r} cfg={cfg} input={text!r}"
        if base[0] != "ok":
            sfx0 = ""
            if g.get("comment"):
                # recorded finding F-C01d (comment positions cached across whitespace modes): accepted without the cache?
                with engine.no_comment_cache():
                    if run_textx(mm, text)[0] == "ok":
                        sfx0 = "/engine:comment_cache"
            out.add("original/rejected" + sfx0, ctx0 + f": {base[1]}")
            continue
        df = c01.ref_diff(g, cfg, text, base[1], res[1])
        if df:
            if df[0] == "new":
                out.add("original/model_" + df[1], ctx0 + " " + df[2])
            continue
        terms = peg.terminals(res[2])
        if not terms:
            continue
        for ti, kind in case["picks"]:
            t = terms[ti % len(terms)]
            gap = text[t.gap:t.start]
            act = active(t.mode)
            meta = False  # does the metamorphic oracle apply to this insertion?
            if kind == 0 and gap and t.mode[0]:
                # duplicate an existing gap character of the active set (not inside a comment)
                idx = next((i for i, c in enumerate(gap) if c in act), None)
                if idx is None:
                    continue
                pos = t.gap + idx
                ins = gap[idx]
                meta = all(c in act for c in gap[:idx + 1])
            elif kind == 1 and g.get("comment") and gap and t.mode[0] and all(c in act for c in gap):
                style = g["comment"]
                if style in ("block", "both"):
                    pos, ins, meta = t.gap, "/* z */", True
                else:
                    nl = gap.find("\n")
                    if nl < 0:
                        continue
                    pos, ins, meta = t.gap + nl, "# z", True
            else:
                # arbitrary insertion right in front of the terminal (differential oracle only)
                pos = t.start
                ins = [" ", "\t", "\n", "  ", " \n", "\r"][kind % 6]
            vtext = text[:pos] + ins + text[pos:]
            ctx = f"grammar={gtext!r} cfg={cfg} input={text!r} variant={vtext!r}"
            got = run_textx(mm, vtext)
            rres, _ = peg.parse(g, cfg, vtext)
            if t.mode != global_mode:
                nt = nt or has_mod
            def cache_sfx(expect_ok, same_as_base=False):
                """'/engine:comment_cache' when the disagreement disappears once the engine remembers nothing about
                comments (recorded finding F-C01d: comment positions cached across whitespace modes), else ''"""
                if not g.get("comment"):
                    return ""
                with engine.no_comment_cache():
                    g2 = run_textx(mm, vtext)
                if (g2[0] == "ok") != expect_ok:
                    return ""
                if expect_ok and same_as_base and D.diff(g2[1], base[1]):
                    return ""
                return "/engine:comment_cache"

            if meta:
                out.cls("metamorphic_insertion")
                if got[0] != "ok":
                    out.add("metamorphic/rejected_after_insertion" + cache_sfx(True, True), ctx + f": {got[1]}")
                    continue
                if D.diff(got[1], base[1]):
                    d2 = D.diff(got[1], base[1])
                    out.add("metamorphic/model_changed" + cache_sfx(True, True), ctx + f" at {d2[1]}: {d2[2]}")
                    continue
            else:
                out.cls("differential_insertion")
            if rres[0] == "budget":
                continue
            if rres[0] == "syntax":
                if got[0] == "ok":
                    out.add("differential/accepts_reference_rejects" + cache_sfx(False), ctx)
            elif got[0] != "ok":
                out.add("differential/rejects_reference_accepts" + cache_sfx(True), ctx + f": {got[1]}")
            elif rres[1] is not None:
                df = c01.ref_diff(g, cfg, vtext, got[1], rres[1])
                if df and df[0] == "new":
                    out.add("differential/model_" + df[1], ctx + " " + df[2])
    out.nontrivial = nt
    return out
