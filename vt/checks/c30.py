"""C30 - the textx CLI reports outcomes and passes generator arguments faithfully.

Domain : command lines for `textx check` and `textx generate` over 1-3 existing model files of a small
         language (items with references), each valid, syntactically invalid (a stray token at a
         generated position), semantically invalid (a reference to an unknown name at a generated
         position) or valid only under --ignore-case (upper-case keywords); the metamodel selected by
         file pattern (registered language), by --language or by --grammar (with / without -i);
         custom arguments with names built from words joined by '-' and '_' (1-3 words), each given a
         value or as a bare flag, placed before / between / after the model files (a bare flag is always
         followed by another switch or the end of the line - anything else is a value by the CLI's
         own syntax); generators registered for the language or for 'any', declaring no parameters or
         1-4 parameters (mandatory or optional, drawn from the same name pool so that declared and given
         names overlap); --overwrite and -o present or not.
Oracle : a reference model of the documented behaviour.  check: exit 0 iff every file is valid, else
         exit 1 and an ERROR record naming the first invalid file with the line and column of the
         generated defect.  generate: files are processed in order; an invalid file ends the run with
         exit 1 and a located message; with declared parameters an undeclared given name or a missing
         mandatory one ends the run with exit 1 before the generator is called; otherwise the
         generator is called once per file with exactly {name.replace('-', '_'): value | True} and with
         the given overwrite flag and output path; any other exit code or an escaping exception is a
         discrepancy.  Exit codes and records are observed through click's CliRunner and a logging
         handler on the root logger; registrations are reset before every case.
"""
import logging
import os
import shutil
import tempfile

from hypothesis import strategies as st

from vt.harness import Outcome

ID = "C30"
LEVEL = "exploration"
CASES = {"quick": 2500, "thorough": 200000}
RULE = ("generated command lines (see Domain; also: names of model parameters as custom arguments, values starting with a "
        "single dash, and - when the language is deduced from the file name - files of two registered languages, each "
        "with a generator of its own, in one command line). non-trivial: check - at least one invalid file or more than one file; generate - "
        "at least one custom argument whose name contains a dash or that is a bare flag, or a generator that declares "
        "parameters. distinct by canonical JSON")
ASSUMPTIONS = [
    "custom argument names never collide with the command's own options (names of model parameters are generated: for "
    "the generator they are custom arguments like any other)",
    "values carry no leading/trailing quotes (the CLI strips them), do not start with '--', and a value starting with a "
    "single dash contains none of the command's own short option letters",
    "a bare flag is never directly followed by a model file (the CLI reads that as flag + value by design)",
    "generators that declare an empty parameter list are not generated (whether that counts as 'declares' is not stated)",
    "model files exist and are valid UTF-8",
]
LEVEL_TEXT = ("Generated command lines run in-process through click's CliRunner against programmatically registered "
              "languages and generators; exit code, log records and the arguments received by the generator compared "
              "with a reference model of the documented CLI behaviour.")
LEVEL_NOTE = "Trusts click's CliRunner to reproduce process-level exit codes and the reference model in this file."
TECHNIQUE = "property-based testing (Hypothesis) against a reference model of the command-line behaviour"
DESIGN_REF = "DESIGN.md section 4 C30"

GRAMMAR = "Model: items+=Item;\nItem: 'item' name=ID ('->' ref=[Item])? ';';\n"
WORDS = ["flag", "my", "out", "dir", "x", "n1", "long", "name", "v2", "skip", "keywords", "dry", "run"]
RESERVED = {"target", "language", "overwrite", "grammar", "ignore-case", "output-path", "help", "debug"}
# names of model parameters (the built-in one and one the registered language adds): the CLI also hands them to the model,
# but for the generator they are custom arguments like any other
MODEL_PARAM_NAMES = ["project-root", "project_root", "my-param", "my_param"]
# values may start with a single dash (click hands unknown short options through unchanged); the letters of the command's
# own short options (-o, -i, -h) are kept out of such values because click would take them
VALUES = ["v", "42", "a b", "x=y", "path/to/x", "ünï", "True", "0", "some.file", "it's ok", "a--b", "-5", "-", "-x", "-1.5e3"]


@st.composite
def names(draw):
    if draw(st.integers(0, 7)) == 0:
        return draw(st.sampled_from(MODEL_PARAM_NAMES))
    ws = draw(st.lists(st.sampled_from(WORDS), min_size=1, max_size=3))
    seps = [draw(st.sampled_from(["-", "-", "_"])) for _ in ws[1:]]
    s = ws[0]
    for sep, w in zip(seps, ws[1:]):
        s += sep + w
    return s


def norm(n):
    return n.replace("-", "_")


@st.composite
def files(draw):
    n = draw(st.integers(1, 5))
    bad = draw(st.sampled_from([None, None, None, "syntax", "ref", "upper"]))
    return {"n": n, "bad": bad, "at": draw(st.integers(0, n - 1)), "layout": draw(st.sampled_from([" ", "\n", "\n  ", " \t"]))}


@st.composite
def cases(draw):
    cmd = draw(st.sampled_from(["check", "generate", "generate"]))
    case = {"cmd": cmd, "select": draw(st.sampled_from(["pattern", "language", "grammar"])),
            "ignore_case": draw(st.booleans()), "files": draw(st.lists(files(), min_size=1, max_size=3))}
    if cmd == "check":
        # with languages deduced from the file names one command line may mix files of two registered languages
        case["langs"] = [draw(st.sampled_from(["a", "a", "b"])) for _ in case["files"]]
        return case
    given = {}
    for _ in range(draw(st.integers(0, 4))):
        n = draw(names())
        if n in RESERVED or norm(n) in RESERVED or norm(n) in given:
            continue
        given[norm(n)] = [n, draw(st.one_of(st.none(), st.sampled_from(VALUES)))]
    case["args"] = list(given.values())
    if draw(st.booleans()):
        decl = {}
        # declared parameters: some of the given ones plus others
        for k in given:
            if draw(st.integers(0, 3)) > 0:
                decl[k] = draw(st.integers(0, 3)) == 0
        for _ in range(draw(st.integers(0, 2))):
            n = norm(draw(names()))
            if n not in RESERVED and n not in decl:
                decl[n] = draw(st.integers(0, 2)) == 0
        case["declared"] = [[k, m] for k, m in decl.items()] or [["flag", False]]
    else:
        case["declared"] = None
    # a second registered language (other file pattern, same grammar) with a generator of its own for the same target:
    # with languages deduced from the file names one command line may mix files of both
    case["langs"] = [draw(st.sampled_from(["a", "a", "b"])) for _ in case["files"]]
    declb = {}
    for k in given:
        if draw(st.integers(0, 2)) > 0:
            declb[k] = draw(st.integers(0, 3)) == 0
    if draw(st.integers(0, 2)) == 0:
        declb[norm(draw(names()))] = draw(st.booleans())
    case["declared_b"] = [[k, m] for k, m in declb.items() if k not in RESERVED] or None
    case["gen_lang"] = draw(st.sampled_from(["own", "any"]))
    case["overwrite"] = draw(st.booleans())
    case["outdir"] = draw(st.booleans())
    # token groups: files and arguments in a generated order; a file never directly follows a bare flag
    groups = [("f", i) for i in range(len(case["files"]))] + [("a", i) for i in range(len(case["args"]))]
    case["order"] = draw(st.permutations(groups)) if groups else []
    return case


def strategy(tier):
    return cases()


def file_text(f, word="item"):
    """(text, (line, col) of the defect or None); `word` is the language's keyword ('item' / 'entry')"""
    kw = word.upper() if f["bad"] == "upper" else word
    parts = []
    pos = None
    off = 0
    for i in range(f["n"]):
        if f["bad"] == "syntax" and i == f["at"]:
            pos = off
            parts.append("@")
            off += 1 + len(f["layout"])
        ref = ""
        if i > 0:
            ref = " -> i0"
        if f["bad"] == "ref" and i == f["at"]:
            ref = " -> nosuch"
        s = f"{kw} i{i}{ref};"
        if f["bad"] == "ref" and i == f["at"]:
            pos = off + s.index("nosuch")
        parts.append(s)
        off += len(s) + len(f["layout"])
    text = f["layout"].join(parts) + "\n"
    if pos is None:
        return text, None
    line = text.count("\n", 0, pos) + 1
    col = pos - (text.rfind("\n", 0, pos) + 1) + 1
    return text, (line, col)


class Capture(logging.Handler):
    def __init__(self):
        super().__init__(level=logging.DEBUG)
        self.recs = []

    def emit(self, r):
        try:
            self.recs.append((r.levelname, r.getMessage()))
        except Exception as e:  # noqa: BLE001
            self.recs.append((r.levelname, f"<unformattable record {e}>"))


def evaluate(case):
    from click.testing import CliRunner
    from textx import metamodel_from_file
    from textx.cli import textx as cli
    from textx.registration import (GeneratorDesc, GeneratorParam, LanguageDesc, clear_generator_registrations,
                                    clear_language_registrations, register_generator, register_language)

    out = Outcome()
    tmp = tempfile.mkdtemp(prefix="c30-")
    calls = []
    try:
        gpath = os.path.join(tmp, "lang.tx")
        with open(gpath, "w", encoding="utf-8") as f:
            f.write(GRAMMAR)
        paths, defects = [], []
        sel = case["select"]
        # which registered language a file belongs to (two languages only when the language is deduced from the name)
        langs = [(lg if sel == "pattern" else "a") for lg in case.get("langs", ["a"] * len(case["files"]))]
        for i, fd in enumerate(case["files"]):
            text, pos = file_text(fd, "item" if langs[i] == "a" else "entry")
            p = os.path.join(tmp, f"m{i}." + ("c30itm" if langs[i] == "a" else "c30b"))
            with open(p, "w", encoding="utf-8") as f:
                f.write(text)
            paths.append(p)
            defects.append(pos)
        clear_language_registrations()
        clear_generator_registrations()
        def lang_mm():
            mm_ = metamodel_from_file(gpath)
            mm_.model_param_defs.add("my_param", "a model parameter of this language")
            return mm_

        register_language(LanguageDesc("c30lang", pattern="*.c30itm", description="", metamodel=lang_mm))
        gpath_b = os.path.join(tmp, "langb.tx")
        with open(gpath_b, "w", encoding="utf-8") as f:
            f.write(GRAMMAR.replace("'item'", "'entry'"))  # the second language spells its keyword differently

        def lang_mm_b():
            mm_ = metamodel_from_file(gpath_b)
            mm_.model_param_defs.add("my_param", "a model parameter of this language")
            return mm_

        register_language(LanguageDesc("c30langb", pattern="*.c30b", description="", metamodel=lang_mm_b))
        icase = case["ignore_case"] and sel == "grammar"
        valid = []
        for fd in case["files"]:
            valid.append(fd["bad"] is None or (fd["bad"] == "upper" and icase))
        argv = [case["cmd"]]
        if sel == "language":
            argv += ["--language", "c30lang"]
        elif sel == "grammar":
            argv += ["--grammar", gpath] + (["-i"] if case["ignore_case"] else [])
        first_bad = next((i for i, v in enumerate(valid) if not v), None)
        if case["cmd"] == "check":
            argv += paths
            exp_exit = 0 if first_bad is None else 1
            exp_calls = None
            order_files = list(range(len(paths)))
            out.nontrivial = first_bad is not None or len(paths) > 1
        else:
            def gen(metamodel, model, output_path, overwrite, debug, **custom_args):
                calls.append((getattr(model, "_tx_filename", None), dict(custom_args), overwrite, output_path))

            # an 'any' generator serves --grammar runs and languages deduced from the file name; an explicit --language
            # asks for that language's own generator
            lang = "any" if (sel == "grammar" or (case["gen_lang"] == "any" and sel == "pattern")) else "c30lang"
            decl = case["declared"]
            register_generator(GeneratorDesc(language=lang, target="c30target", description="", generator=gen,
                                             custom_args=None if decl is None else [GeneratorParam(n, "d", m) for n, m in decl]))
            decl_of = {"a": decl, "b": decl}
            if lang != "any":
                # the second language has a generator of its own, with its own declared parameters
                def gen_b(metamodel, model, output_path, overwrite, debug, **custom_args):
                    calls.append((getattr(model, "_tx_filename", None), dict(custom_args), overwrite, output_path, "b"))

                declb = case.get("declared_b")
                decl_of["b"] = declb
                register_generator(GeneratorDesc(language="c30langb", target="c30target", description="", generator=gen_b,
                                                 custom_args=None if declb is None else [GeneratorParam(n, "d", m) for n, m in declb]))
            argv += ["--target", "c30target"]
            if case["overwrite"]:
                argv.append("--overwrite")
            outdir = os.path.join(tmp, "out") if case["outdir"] else None
            if outdir:
                argv += ["-o", outdir]
            toks = []
            order_files = []
            prev_bare = False
            deferred = []
            for kind, i in case["order"]:
                if kind == "f":
                    if prev_bare:
                        deferred.append(i)
                        continue
                    toks.append(paths[i])
                    order_files.append(i)
                    prev_bare = False
                else:
                    n, v = case["args"][i]
                    toks.append("--" + n)
                    if v is not None:
                        toks.append(v)
                    prev_bare = v is None
            # files that would have followed a bare flag go to the front
            toks = [paths[i] for i in deferred] + toks
            order_files = deferred + order_files
            argv += toks
            exp_args = {norm(n): (True if v is None else v) for n, v in case["args"]}
            def ok_for(d):
                if d is None:
                    return True
                dn = {n for n, _ in d}
                return not (any(m and n not in exp_args for n, m in d) or any(k not in dn for k in exp_args))

            args_ok = all(ok_for(decl_of[langs[i]]) for i in order_files) if order_files else ok_for(decl)
            exp_calls = []
            exp_exit = 0
            first_bad = None
            for i in order_files:
                if not valid[i]:
                    exp_exit = 1
                    first_bad = i
                    break
                if not ok_for(decl_of[langs[i]]):
                    exp_exit = 1
                    break
                exp_calls.append((paths[i], exp_args, case["overwrite"], outdir, "b" if (langs[i] == "b" and lang != "any") else "a"))
            if len(set(langs)) > 1:
                out.cls("two_languages_in_one_command")
            dashed = any("-" in n for n, _ in case["args"])
            bare = any(v is None for _, v in case["args"])
            out.nontrivial = dashed or bare or decl is not None
            out.cls("args:%d" % len(case["args"]))
            if dashed and bare and any("-" in n and v is None for n, v in case["args"]):
                out.cls("dashed_bare_flag")
            if decl is not None:
                out.cls("declared:" + ("args_ok" if args_ok else "args_rejected"))
        out.cls(f"{case['cmd']}:{sel}")
        out.cls("exit_expected:%d" % exp_exit)
        out.sample = {"argv": [a.replace(tmp, "<tmp>") for a in argv], "files": [file_text(f, "item" if langs[i] == "a" else "entry")[0] for i, f in enumerate(case["files"])],
                      "declared": case.get("declared")}
        cap = Capture()
        root = logging.getLogger()
        saved = root.handlers[:]
        root.handlers[:] = [cap]  # the CLI's own stream handler would only add noise to the check's output
        try:
            res = CliRunner().invoke(cli, argv)
        finally:
            root.handlers[:] = saved
        shown = " ".join(out.sample["argv"])
        kind = case["cmd"]
        exc = res.exception
        if exc is not None and not isinstance(exc, SystemExit):
            feat = ""
            if kind == "generate":
                feat = "/bare_flag_with_dash" if any("-" in n and v is None for n, v in case["args"]) else ""
            out.add(f"{kind}_raises:{type(exc).__name__}{feat}", f"{shown}: {type(exc).__name__}: {exc}")
            return out
        if res.exit_code != exp_exit:
            feat = ""
            if kind == "generate":
                if any("-" in n and v is None for n, v in case["args"]):
                    feat = "/bare_flag_with_dash"
                elif case["declared"] is not None:
                    feat = "/declared"
            out.add(f"{kind}_exit_code{feat}", f"{shown}: exit {res.exit_code}, expected {exp_exit}; records {cap.recs[-3:]}")
            return out
        if exp_exit == 1:
            errs = [m for lv, m in cap.recs if lv == "ERROR"]
            if not errs:
                out.add(f"{kind}_no_error_message", f"{shown}: exit 1 without an ERROR record; records {cap.recs[-3:]}")
            elif first_bad is not None:
                line, col = defects[first_bad] if defects[first_bad] else (None, None)
                if case["files"][first_bad]["bad"] == "upper":
                    line, col = 1, 1
                want = f"{os.path.basename(paths[first_bad])}:{line}:{col}:"
                if not any(want in m for m in errs):
                    feat = ""
                    if kind == "generate" and any("-" in n and v is None for n, v in case["args"]):
                        feat = "/bare_flag_with_dash"
                    out.add(f"{kind}_error_not_located{feat}", f"{shown}: expected an error containing {want!r}; got {errs}")
        if exp_calls is not None:
            got = [(os.path.abspath(c[0]) if c[0] else None, c[1], c[2], c[3], c[4] if len(c) > 4 else "a") for c in calls]
            if [(g[0], g[1]) for g in got] != [(e[0], e[1]) for e in exp_calls]:
                feat = "/bare_flag_with_dash" if any("-" in n and v is None for n, v in case["args"]) else ""
                out.add(f"generator_arguments{feat}", f"{shown}: generator calls {[(os.path.basename(g[0] or ''), g[1]) for g in got]}, "
                        f"expected {[(os.path.basename(e[0]), e[1]) for e in exp_calls]}")
            elif [g[4] for g in got] != [e[4] for e in exp_calls]:
                out.add("generator_of_another_language_called", f"{shown}: generators called {[g[4] for g in got]}, "
                        f"expected {[e[4] for e in exp_calls]}")
            elif [(g[2], g[3]) for g in got] != [(e[2], e[3]) for e in exp_calls]:
                out.add("generator_overwrite_or_output_path", f"{shown}: got {[(g[2], g[3]) for g in got]}")
        return out
    finally:
        try:
            clear_language_registrations()
            clear_generator_registrations()
        except Exception:  # noqa: BLE001
            pass
        shutil.rmtree(tmp, ignore_errors=True)
