"""C34 - editor-support positions identify references and objects exactly.

Domain : generated package trees with classes holding plain and qualified (multi-part) references
         (single 'extends', list 'uses'), a postponement schedule per reference (the registered RREL
         provider is wrapped and returns Postponed on the first k calls), wrapper objects whose
         contained objects share their start position or their whole span (two and three levels);
         single-file loads from strings and files, and two-file models (the main file imports a
         library file whose classes it references; the library has references - and postponements -
         of its own); textx_tools_support=True.
Oracle : per model file: _pos_crossref_list has one entry per resolved reference of that file; it is
         sorted by ref_pos_start; [ref_pos_start, ref_pos_end) is exactly the reference text written
         by the generator; def_file_name / def_pos_start / def_pos_end are the target's model file
         and span.  _pos_rule_dict: every key is the span of its value; for a span shared by nested
         objects the innermost object is stored; iteration lists a span before every different span
         containing it.
"""
import copy
import os
import shutil
import tempfile

from hypothesis import strategies as st

from vt.gen.writer import GAPS_COMMENT, Writer, layouts
from vt.harness import Outcome

ID = "C34"
LEVEL = "exploration"
CASES = {"quick": 3000, "thorough": 150000}
RULE = ("generated package trees (depth<=3) with classes (extends / uses references written as absolute dotted names), "
        "wrappers and boxes sharing start or whole span with their inner objects (2 and 3 levels), a postponement count 0-2 "
        "per reference, string / file load, 35% two-file models (main imports a library). non-trivial: >=1 qualified or "
        "postponed reference and >=1 pair of nested objects with equal start; also: Package/Cls as user classes, and definitions at offset 0 of their text referenced from the same and from an importing file; distinct by canonical JSON")
ASSUMPTIONS = [
    "the reference text is the dotted name as written (no blanks inside)",
    "postponement schedules keep at least one reference resolving per round (counts are lowered until that holds)",
]
LEVEL_TEXT = ("Generated models, schedules and span-sharing shapes; the editor-support tables of every loaded file are "
              "compared with offsets recorded by the text writer.")
LEVEL_NOTE = "Trusts the writer's recorded token offsets and object spans."
TECHNIQUE = "property-based testing (Hypothesis) with a postponing provider, against recorded offsets"
DESIGN_REF = "DESIGN.md section 4 C34"

GRAMMAR = r"""
Model: imports*=Import packages*=Package;
Import: 'import' importURI=STRING;
Package: 'package' name=ID '{' (packages+=Package | classes+=Cls | boxes+=Box)* '}';
Cls: 'class' name=ID ('extends' base=[Cls:FQN])? ('uses' uses+=[Cls:FQN][','])?;
Box: wrap=Wrap mark?='m';
Wrap: inner=Inner suffix?='w';
Inner: 'inner' name=ID;
FQN: ID('.'ID)*;
Comment: /\/\/.*?$/ | /\/\*(.|\n)*?\*\//;
"""


def _pkg(depth):
    ref = st.tuples(st.integers(0, 20), st.integers(0, 2)).map(list)
    cls = st.fixed_dictionaries({"k": st.just("Cls"), "base": st.one_of(st.none(), ref), "uses": st.lists(ref, max_size=3)})
    box = st.fixed_dictionaries({"k": st.just("Box"), "suffix": st.booleans(), "mark": st.booleans()})
    kid = st.one_of(cls, cls, box)
    if depth > 0:
        kid = st.one_of(kid, kid, _pkg(depth - 1))
    return st.fixed_dictionaries({"k": st.just("Package"), "kids": st.lists(kid, min_size=1, max_size=4)})


@st.composite
def cases(draw):
    lib = draw(st.lists(_pkg(1), min_size=1, max_size=2)) if draw(st.integers(0, 19)) < 7 else None
    return {"packages": draw(st.lists(_pkg(2), min_size=1, max_size=2)), "layout": draw(layouts()),
            "from_file": draw(st.booleans()), "lib": lib, "lib_layout": draw(layouts(max_size=6)),
            # Package and Cls as user classes (their position attributes are set when a model's construction ends,
            # which in a two-file load happens per model while the classes are still shared)
            "userclasses": draw(st.sampled_from([False, False, True]))}


def strategy(tier):
    return cases()


def build_file(packages, layout, prefix, fileno, extern, header=""):
    """returns (text, refs, spans, shared, classes).  refs: dicts with start/end/text/k/target=(file, id);
    spans: id -> (kind, start, end); shared: list of chains [outer id, ..., innermost id] of nested objects"""
    classes = []
    counter = [0]

    def names(e, path):
        counter[0] += 1
        e["_id"] = counter[0]
        if e["k"] == "Package":
            e["_name"] = f"{prefix}p{counter[0]}"
            for k in e["kids"]:
                names(k, path + [e["_name"]])
        elif e["k"] == "Cls":
            e["_name"] = f"{prefix}c{counter[0]}"
            e["_path"] = ".".join(path + [e["_name"]])
            e["_file"] = fileno
            classes.append(e)
        else:
            e["_name"] = f"{prefix}i{counter[0]}"

    pk = copy.deepcopy(packages)
    for p in pk:
        names(p, [])
    pool = classes + list(extern)
    w = Writer(layout, GAPS_COMMENT)
    if header:
        w.tok("import")
        w.tok(header)
    refs, spans, shared = [], {}, []

    def ref(spec):
        t = pool[spec[0] % len(pool)]
        s = w.tok(t["_path"])
        refs.append({"start": s, "end": s + len(t["_path"]), "target": (t["_file"], t["_id"]), "k": spec[1], "text": t["_path"]})

    def emit_wrap(e, key):
        w.begin(key)
        ikey = ("inner", key)
        w.begin(ikey)
        w.tok("inner")
        w.tok(e["_name"])
        w.end(ikey)
        spans[ikey] = ("Inner",) + tuple(w.spans[ikey])
        if e["suffix"]:
            w.tok("w")
        w.end(key)
        spans[key] = ("Wrap",) + tuple(w.spans[key])
        return ikey

    def emit(e):
        key = e["_id"]
        if e["k"] == "Package":
            w.begin(key)
            w.tok("package")
            w.tok(e["_name"])
            w.tok("{")
            for k in e["kids"]:
                emit(k)
            w.tok("}")
            w.end(key)
            spans[key] = ("Package",) + tuple(w.spans[key])
        elif e["k"] == "Cls":
            w.begin(key)
            w.tok("class")
            w.tok(e["_name"])
            if e["base"] is not None and pool:
                w.tok("extends")
                ref(e["base"])
            if e["uses"] and pool:
                w.tok("uses")
                for j, u in enumerate(e["uses"]):
                    if j:
                        w.tok(",")
                    ref(u)
            w.end(key)
            spans[key] = ("Cls",) + tuple(w.spans[key])
        else:
            wkey = ("wrap", key)
            w.begin(key)
            ikey = emit_wrap(e, wkey)
            if e["mark"]:
                w.tok("m")
            w.end(key)
            spans[key] = ("Box",) + tuple(w.spans[key])
            shared.append([key, wkey, ikey])

    for p in pk:
        emit(p)
    return w.text(), refs, spans, shared, classes


def normalise(refs):
    def productive():
        pend = [r["k"] for r in refs]
        rnd = 0
        while pend:
            rnd += 1
            left = [k for k in pend if k >= rnd]
            if len(left) == len(pend):
                return False
            pend = left
        return True

    while refs and not productive():
        m = max(refs, key=lambda r: r["k"])
        m["k"] -= 1


def verify(out, ctx, model, text, refs, spans, shared, files, fileno, all_spans, postponed):
    by_start = {r["start"]: r for r in refs}
    lst = list(model._pos_crossref_list)
    starts = [e.ref_pos_start for e in lst]
    role = "main" if fileno == 0 else "imported"
    if starts != sorted(starts):
        out.add(f"crossref_list/not_sorted/{role}" + ("/postponed" if postponed else ""), ctx + f": file {fileno}: starts {starts}")
    if sorted(starts) != sorted(r["start"] for r in refs):
        dup = len(starts) != len(set(starts))
        out.add("crossref_list/" + ("duplicate_entries" if dup else "entries_missing_or_extra"),
                ctx + f": file {fileno}: starts {sorted(starts)} expected {sorted(r['start'] for r in refs)}")
    for e in lst:
        r = by_start.get(e.ref_pos_start)
        if r is None:
            continue
        if e.ref_pos_end != r["end"]:
            out.add("crossref_entry/ref_pos_end/" + ("qualified" if "." in r["text"] else "plain"),
                    ctx + f": reference {r['text']!r} at {r['start']}: end {e.ref_pos_end}, expected {r['end']} "
                    f"(slice {text[e.ref_pos_start:e.ref_pos_end]!r})")
        tfile, tid = r["target"]
        tk, ts, te = all_spans[tfile][tid]
        if (e.def_pos_start, e.def_pos_end) != (ts, te):
            out.add("crossref_entry/definition_span", ctx + f": {r['text']!r}: def span {(e.def_pos_start, e.def_pos_end)} "
                    f"expected {(ts, te)}")
        want_file = files[tfile]
        got_file = os.path.realpath(e.def_file_name) if e.def_file_name else None
        if got_file != want_file:
            out.add("crossref_entry/definition_file", ctx + f": {e.def_file_name!r} expected {want_file!r}")
    rd = model._pos_rule_dict
    keys = list(rd.keys())
    for kpos, o in rd.items():
        if (o._tx_position, o._tx_position_end) != tuple(kpos):
            out.add("rule_dict/key_is_not_span_of_value", ctx + f": key {kpos} -> {type(o).__name__} "
                    f"[{o._tx_position},{o._tx_position_end})")
    exp_spans = {(s, e) for (_, s, e) in spans.values()}
    if spans and not exp_spans <= set(map(tuple, keys)):
        out.add("rule_dict/span_missing", ctx + f": missing {sorted(exp_spans - set(map(tuple, keys)))[:3]}")
    for chain in shared:
        # chain = [Box, Wrap, Inner] (outermost first); for every span shared by several of them the innermost wins
        by_span = {}
        for k in chain:
            by_span.setdefault(spans[k][1:], []).append(spans[k][0])
        for sp, kinds_ in by_span.items():
            if len(kinds_) >= 2:
                o = rd.get(sp)
                if o is not None and type(o).__name__ != kinds_[-1]:
                    out.add(f"rule_dict/shared_span_holds_outer_object/{len(kinds_)}_levels",
                            ctx + f": span {sp} shared by {kinds_} holds a {type(o).__name__}")
    for i, a in enumerate(keys):
        hit = next((b for b in keys[i + 1:] if tuple(a) != tuple(b) and a[0] <= b[0] and b[1] <= a[1]), None)
        if hit is not None:
            out.add("rule_dict/containing_span_listed_first", ctx + f": {tuple(a)} is listed before {tuple(hit)}")
            break


def evaluate(case):
    from textx import metamodel_from_str
    from textx.exceptions import TextXError
    from textx.scoping import Postponed
    from textx.scoping.rrel import create_rrel_scope_provider

    out = Outcome()
    check_offset_zero(out, case)
    multi = case["lib"] is not None
    lib_text = lib_refs = lib_spans = lib_shared = None
    lib_classes = []
    if multi:
        lib_text, lib_refs, lib_spans, lib_shared, lib_classes = build_file(case["lib"], case["lib_layout"], "L", 1, [])
    text, refs, spans, shared, _ = build_file(case["packages"], case["layout"], "", 0, lib_classes,
                                             header='"lib.m"' if multi else "")
    all_refs = refs + (lib_refs or [])
    normalise(all_refs)
    classes = []
    if case.get("userclasses"):
        def init(self, **kw):
            for k_, v_ in kw.items():
                setattr(self, k_, v_)

        classes = [type("Package", (object,), {"__init__": init}), type("Cls", (object,), {"__init__": init})]
    mm = metamodel_from_str(GRAMMAR, textx_tools_support=True, classes=classes)
    inner = create_rrel_scope_provider("+m:packages*.classes")
    calls = {}

    def provider(obj, attr, obj_ref):
        from textx import get_model

        fn = get_model(obj)._tx_filename
        is_lib = bool(fn) and os.path.basename(fn) == "lib.m"
        table = lib_refs if is_lib else refs
        r = next((x for x in table if x["start"] == obj_ref.position), None)
        key = (is_lib, obj_ref.position)
        c = calls.get(key, 0) + 1
        calls[key] = c
        if r is not None and c <= r["k"]:
            return Postponed()
        return inner(obj, attr, obj_ref)

    mm.register_scope_providers({"Cls.base": provider, "Cls.uses": provider, "Import.importURI": inner})
    tmp = None
    files = {0: None, 1: None}
    try:
        try:
            if case["from_file"] or multi:
                tmp = os.path.realpath(tempfile.mkdtemp(prefix="vt-c34-"))
                files[0] = os.path.join(tmp, "m.model")
                with open(files[0], "w", newline="") as f:
                    f.write(text)
                if multi:
                    files[1] = os.path.join(tmp, "lib.m")
                    with open(files[1], "w", newline="") as f:
                        f.write(lib_text)
                model = mm.model_from_file(files[0])
            else:
                model = mm.model_from_str(text)
        except TextXError as e:
            return out.add("load_failed", f"{text!r} lib={lib_text!r}: {e}")
        ctx = f"text={text!r} lib={lib_text!r} schedule={[(r['text'], r['k']) for r in all_refs]}"
        qualified = any("." in r["text"] for r in all_refs)
        postponed = any(r["k"] for r in all_refs)
        out.nontrivial = (qualified or postponed) and bool(shared or lib_shared)
        out.cls("qualified" if qualified else "plain_names", "postponed" if postponed else "no_postponement",
                "two_files" if multi else ("file" if case["from_file"] else "string"))
        if classes:
            out.cls("user_classes" + ("/two_files" if multi else ""))
        out.sample = {"text": text, "lib": lib_text, "schedule": [(r["text"], r["k"]) for r in all_refs]}
        all_spans = {0: spans, 1: lib_spans}
        verify(out, ctx, model, text, refs, spans, shared, files, 0, all_spans, postponed)
        if multi:
            libm = [m for m in model._tx_model_repository.all_models if m is not model]
            if len(libm) != 1:
                out.add("library_model_missing", ctx)
            else:
                verify(out, ctx, libm[0], lib_text, lib_refs, lib_spans, lib_shared, files, 1, all_spans, postponed)
        return out
    finally:
        if tmp:
            shutil.rmtree(tmp, ignore_errors=True)


# -- targets that start at offset 0 of their text ----------------------------------------------------------------
ZERO_GRAMMAR = r"""
Model: imports*=Import items+=Item;
Import: 'import' importURI=STRING;
Item: Def | Ref;
Def: 'def' name=ID;
Ref: 'ref' r=[Def];
"""


def check_offset_zero(out, case):
    """a definition that is the first thing in its text (offset 0, where it shares its start with the root object) is
    referenced from the same file and from an importing file: both references must be in the cross-reference list"""
    from textx import metamodel_from_str
    from textx.exceptions import TextXError
    from textx.scoping import providers as P

    lead = "" if case["from_file"] else " \n"  # both with and without leading whitespace occur over the cases
    two = case["lib"] is not None
    mm = metamodel_from_str(ZERO_GRAMMAR, textx_tools_support=True)
    mm.register_scope_providers({"*.*": P.PlainNameImportURI()})
    tmp = os.path.realpath(tempfile.mkdtemp(prefix="vt-c34z-"))
    try:
        lib_text = "def first def second\n"
        main_text = (lead + ('import "lib0.m"\n' if two else "") + ("" if two else "def first ") + "ref first def third ref third"
                     + (" ref second" if two else "") + "\n")
        if two:
            with open(os.path.join(tmp, "lib0.m"), "w") as f:
                f.write(lib_text)
        mp = os.path.join(tmp, "main0.m")
        with open(mp, "w") as f:
            f.write(main_text)
        try:
            m = mm.model_from_file(mp)
        except TextXError as e:
            return out.add("offset_zero/load_failed", f"{main_text!r} lib={lib_text if two else None!r}: {e}")
        want = []
        for mt in __import__("re").finditer(r"ref (\w+)", main_text):
            want.append((mt.start(1), mt.end(1), mt.group(1)))
        got = sorted((e.ref_pos_start, e.ref_pos_end) for e in m._pos_crossref_list)
        if got != sorted((a, b) for a, b, _ in want):
            tgt0 = (not two and lead == "") or two
            out.add("offset_zero/crossref_list_entries" + ("/target_at_offset_0" if tgt0 else ""),
                    f"text={main_text!r} lib={lib_text if two else None!r}: entries {got}, expected {sorted((a, b) for a, b, _ in want)}")
        out.cls("offset_zero:" + ("two_files" if two else ("no_leading_ws" if lead == "" else "leading_ws")))
    finally:
        shutil.rmtree(tmp, ignore_errors=True)
