"""C34 - editor-support positions identify references and objects exactly.

Domain : generated package trees with classes holding plain and qualified (multi-part) references
         (single 'extends', list 'uses'), a postponement schedule per reference (the registered RREL
         provider is wrapped and returns Postponed on the first k calls), wrapper objects whose
         single contained object shares their start position or their whole span; loads from strings
         and files; textx_tools_support=True.
Oracle : _pos_crossref_list: one entry per resolved reference; sorted by ref_pos_start;
         [ref_pos_start, ref_pos_end) is exactly the reference text written by the generator;
         def_file_name / def_pos_start / def_pos_end are the target's model file and span.
         _pos_rule_dict: every key is the span of its value; for a span shared by nested objects the
         innermost object is stored; iteration lists a span before every different span containing it.
"""
import os
import shutil
import tempfile

from hypothesis import strategies as st

from vt.gen.writer import GAPS_COMMENT, Writer, layouts
from vt.harness import Outcome

ID = "C34"
LEVEL = "exploration"
CASES = {"quick": 3000, "thorough": 150000}
RULE = ("generated package trees (depth<=3) with classes (extends / uses references written as absolute dotted names), "
        "wrappers sharing start or whole span with their inner object, a postponement count 0-2 per reference, string / file "
        "load. non-trivial: >=1 qualified or postponed reference and >=1 pair of nested objects with equal start; distinct by "
        "canonical JSON")
ASSUMPTIONS = [
    "the reference text is the dotted name as written (no blanks inside)",
    "postponement schedules keep at least one reference resolving per round (the provider's counters guarantee progress)",
]
LEVEL_TEXT = ("Generated models, schedules and span-sharing shapes; the editor-support tables are compared with offsets "
              "recorded by the text writer.")
LEVEL_NOTE = "Trusts the writer's recorded token offsets and object spans."
TECHNIQUE = "property-based testing (Hypothesis) with a postponing provider, against recorded offsets"
DESIGN_REF = "DESIGN.md section 4 C34"

GRAMMAR = r"""
Model: packages*=Package;
Package: 'package' name=ID '{' (packages+=Package | classes+=Cls | wraps+=Wrap)* '}';
Cls: 'class' name=ID ('extends' base=[Cls:FQN])? ('uses' uses+=[Cls:FQN][','])?;
Wrap: inner=Inner suffix?='w';
Inner: 'inner' name=ID;
FQN: ID('.'ID)*;
Comment: /\/\/.*?$/ | /\/\*(.|\n)*?\*\//;
"""


def _pkg(depth):
    cls = st.fixed_dictionaries({"k": st.just("Cls"), "base": st.one_of(st.none(), st.tuples(st.integers(0, 20), st.integers(0, 2)).map(list)),
                                 "uses": st.lists(st.tuples(st.integers(0, 20), st.integers(0, 2)).map(list), max_size=3)})
    wrap = st.fixed_dictionaries({"k": st.just("Wrap"), "suffix": st.booleans()})
    kid = st.one_of(cls, cls, wrap)
    if depth > 0:
        kid = st.one_of(kid, kid, _pkg(depth - 1))
    return st.fixed_dictionaries({"k": st.just("Package"), "kids": st.lists(kid, min_size=1, max_size=4)})


@st.composite
def cases(draw):
    return {"packages": draw(st.lists(_pkg(2), min_size=1, max_size=2)), "layout": draw(layouts()),
            "from_file": draw(st.booleans())}


def strategy(tier):
    return cases()


def build(case):
    # first pass: names and absolute paths of the classes
    classes = []
    counter = [0]

    def names(e, path):
        counter[0] += 1
        e["_id"] = counter[0]
        if e["k"] == "Package":
            e["_name"] = f"p{counter[0]}"
            for k in e["kids"]:
                names(k, path + [e["_name"]])
        elif e["k"] == "Cls":
            e["_name"] = f"c{counter[0]}"
            e["_path"] = ".".join(path + [e["_name"]])
            classes.append(e)
        else:
            e["_name"] = f"i{counter[0]}"

    import copy

    pk = copy.deepcopy(case["packages"])
    for p in pk:
        names(p, [])
    w = Writer(case["layout"], GAPS_COMMENT)
    refs = []  # {"start","end","target": cls id, "k": postpone count}
    spans = {}  # id -> (kind, start, end)
    inner_of = {}

    def emit(e):
        key = e["_id"]
        w.begin(key)
        if e["k"] == "Package":
            w.tok("package")
            w.tok(e["_name"])
            w.tok("{")
            for k in e["kids"]:
                emit(k)
            w.tok("}")
        elif e["k"] == "Cls":
            w.tok("class")
            w.tok(e["_name"])
            if e["base"] is not None and classes:
                t = classes[e["base"][0] % len(classes)]
                w.tok("extends")
                s = w.tok(t["_path"])
                refs.append({"start": s, "end": s + len(t["_path"]), "target": t["_id"], "k": e["base"][1], "text": t["_path"]})
            us = [u for u in e["uses"]] if classes else []
            if us:
                w.tok("uses")
                for j, u in enumerate(us):
                    if j:
                        w.tok(",")
                    t = classes[u[0] % len(classes)]
                    s = w.tok(t["_path"])
                    refs.append({"start": s, "end": s + len(t["_path"]), "target": t["_id"], "k": u[1], "text": t["_path"]})
        else:
            ikey = ("inner", key)
            w.begin(ikey)
            w.tok("inner")
            w.tok(e["_name"])
            w.end(ikey)
            spans[ikey] = ("Inner",) + tuple(w.spans[ikey])
            inner_of[key] = ikey
            if e["suffix"]:
                w.tok("w")
        w.end(key)
        spans[key] = (e["k"],) + tuple(w.spans[key])

    for p in pk:
        emit(p)
    return w.text(), refs, spans, inner_of


def evaluate(case):
    from textx import get_children, metamodel_from_str
    from textx.exceptions import TextXError
    from textx.scoping import Postponed
    from textx.scoping.rrel import create_rrel_scope_provider

    out = Outcome()
    text, refs, spans, inner_of = build(case)
    mm = metamodel_from_str(GRAMMAR, textx_tools_support=True)
    inner = create_rrel_scope_provider("packages*.classes")
    calls = {}
    by_start = {r["start"]: r for r in refs}
    # keep every round productive: never postpone all pending references of a round
    def productive():
        pend = [r["k"] for r in refs]
        rnd = 0
        while pend:
            rnd += 1
            left = [k for k in pend if k >= rnd]
            if len(left) == len(pend):
                return False
            pend = left
        return True

    while refs and not productive():
        m = max(refs, key=lambda r: r["k"])
        m["k"] -= 1

    def provider(obj, attr, obj_ref):
        r = by_start.get(obj_ref.position)
        c = calls.get(obj_ref.position, 0) + 1
        calls[obj_ref.position] = c
        if r is not None and c <= r["k"]:
            return Postponed()
        return inner(obj, attr, obj_ref)

    mm.register_scope_providers({"Cls.base": provider, "Cls.uses": provider})
    tmp = fname = None
    try:
        try:
            if case["from_file"]:
                tmp = tempfile.mkdtemp(prefix="vt-c34-")
                fname = os.path.join(tmp, "m.model")
                with open(fname, "w", newline="") as f:
                    f.write(text)
                model = mm.model_from_file(fname)
            else:
                model = mm.model_from_str(text)
        except TextXError as e:
            return out.add("load_failed", f"{text!r}: {e}")
    finally:
        if tmp:
            shutil.rmtree(tmp, ignore_errors=True)
    ctx = f"text={text!r} schedule={[(r['text'], r['k']) for r in refs]}"
    qualified = any("." in r["text"] for r in refs)
    postponed = any(r["k"] for r in refs)
    shared_start = bool(inner_of)
    out.nontrivial = (qualified or postponed) and shared_start
    out.cls("qualified" if qualified else "plain_names", "postponed" if postponed else "no_postponement",
            "file" if case["from_file"] else "string")
    out.sample = {"text": text, "schedule": [(r["text"], r["k"]) for r in refs]}
    objs = {(type(o).__name__, o._tx_position, o._tx_position_end): o for o in [model] + get_children(lambda x: True, model)}
    # ---- cross references
    lst = list(model._pos_crossref_list)
    starts = [e.ref_pos_start for e in lst]
    if starts != sorted(starts):
        out.add("crossref_list/not_sorted" + ("/postponed" if postponed else ""), ctx + f": starts {starts}")
    if sorted(starts) != sorted(r["start"] for r in refs):
        dup = len(starts) != len(set(starts))
        out.add("crossref_list/" + ("duplicate_entries" if dup else "entries_missing_or_extra"),
                ctx + f": starts {sorted(starts)} expected {sorted(r['start'] for r in refs)}")
    for e in lst:
        r = by_start.get(e.ref_pos_start)
        if r is None:
            continue
        if e.ref_pos_end != r["end"]:
            out.add("crossref_entry/ref_pos_end/" + ("qualified" if "." in r["text"] else "plain"),
                    ctx + f": reference {r['text']!r} at {r['start']}: end {e.ref_pos_end}, expected {r['end']} "
                    f"(slice {text[e.ref_pos_start:e.ref_pos_end]!r})")
        tk, ts, te = spans[r["target"]]
        if (e.def_pos_start, e.def_pos_end) != (ts, te):
            out.add("crossref_entry/definition_span", ctx + f": {r['text']!r}: def span {(e.def_pos_start, e.def_pos_end)} "
                    f"expected {(ts, te)}")
        if e.def_file_name != fname:
            out.add("crossref_entry/definition_file", ctx + f": {e.def_file_name!r} expected {fname!r}")
    # ---- rule dict
    rd = model._pos_rule_dict
    keys = list(rd.keys())
    for kpos, o in rd.items():
        if (o._tx_position, o._tx_position_end) != tuple(kpos):
            out.add("rule_dict/key_is_not_span_of_value", ctx + f": key {kpos} -> {type(o).__name__} "
                    f"[{o._tx_position},{o._tx_position_end})")
    exp_spans = {(s, e) for (_, s, e) in spans.values()}
    if len(spans) and not exp_spans <= set(map(tuple, keys)):
        out.add("rule_dict/span_missing", ctx + f": missing {sorted(exp_spans - set(map(tuple, keys)))[:3]}")
    for wkey, ikey in inner_of.items():
        _, ws, we = spans[wkey]
        _, is_, ie = spans[ikey]
        if (ws, we) == (is_, ie):
            o = rd.get((ws, we))
            if o is not None and type(o).__name__ != "Inner":
                out.add("rule_dict/shared_span_holds_outer_object", ctx + f": span {(ws, we)} holds a {type(o).__name__}")
    for i, a in enumerate(keys):
        for b in keys[i + 1:]:
            # b comes after a: b must not be strictly contained in a ... i.e. a must not contain b
            if tuple(a) != tuple(b) and a[0] <= b[0] and b[1] <= a[1]:
                out.add("rule_dict/containing_span_listed_first", ctx + f": {tuple(a)} is listed before {tuple(b)}")
                break
        else:
            continue
        break
    return out
