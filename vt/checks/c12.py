"""C12 - printed RREL expressions re-parse to equivalent expressions.

Domain : RREL trees over all operators and flags, printed by our own printer.
Oracle : round trip  t1 = parse(src); s = str(t1); t2 = parse(s);
         dump(t1) == dump(t2) (independent structural walk incl. flags);
         behavioural corollary on a fixed family of models: find() with t1 and
         with t2 (and their use_proxy) return the same object / path from every start.
"""
from hypothesis import strategies as st

from vt.gen import rrel as G
from vt.harness import Outcome, exc_bucket

ID = "C12"
LEVEL = "exploration"
CASES = {"quick": 2000, "thorough": 400000}
RULE = ("RREL trees (depth<=2, <=3 paths, <=3 elements per path, all operators, flags '' +m: +p: +mp: +pm:, "
        "fixed names over an alphabet with both quote characters and backslashes, optional blanks between tokens) "
        "printed by the harness' printer; round trip parse->str->parse compared structurally, then both trees "
        "evaluated with rrel.find on 3 fixed models from every object and for every 1-2 part name; the names of the "
        "parsed tree are also compared with the generated AST, after a twin expression that differs only by blanks inside "
        "quoted names has been parsed. "
        "non-trivial: tree has >=3 nodes and a flag or '^' or a fixed name; distinct by canonical JSON of the case")
ASSUMPTIONS = [
    "source texts are produced only from the documented RREL operator set",
    "a fixed name is written between one quote kind with only that quote escaped and without a trailing backslash",
]

_MODELS = None


def _models():
    """a few loaded models (fixed configuration) used for the behavioural corollary"""
    global _MODELS
    if _MODELS is None:
        from textx import metamodel_from_str

        mm = metamodel_from_str(r"""
Model: packages*=Package;
Package: 'package' name=ID '{' (packages+=Package | classes+=Cls)* '}';
Cls: 'class' name=ID ('{' (a+=A | b=B | c+=Cls)* '}')?;
A: 'a' name=ID;
B: 'b' name=ID;
""")
        srcs = [
            "package a { class b { a a b a class c } package b { class a { a b } } }",
            "package p1 { package a { class c { a a } } class a } package parent { class parent { a parent } }",
        ]
        _MODELS = [(mm, mm.model_from_str(s)) for s in srcs]
    return _MODELS


def _objects(m):
    from textx import get_children

    return get_children(lambda o: True, m)


def _res(x):
    from textx.scoping import Postponed

    if x is None:
        return None
    if isinstance(x, Postponed):
        return "Postponed"
    try:
        path = x._tx_path
        return ["proxy", [id(o) for o in path]]
    except AttributeError:
        return ["obj", id(x)]


def _leaves_of_expr(expr):
    """navigation / parent steps of the generated AST in written order: what the source text says"""
    out = []

    def pe(e):
        if e["k"] == "nav":
            out.append(["Nav", e["name"], bool(e["consume"]) and e["fixed"] is None, e["fixed"][1] if e["fixed"] is not None else None])
        elif e["k"] == "parent":
            out.append(["Parent", e["type"]])
        else:
            for p in e["paths"]:
                for x in p["elems"]:
                    pe(x)

    for p in expr["paths"]:
        for x in p["elems"]:
            pe(x)
    return out


def _leaves_of_dump(d):
    out = []

    def go(x):
        if isinstance(x, list):
            if x and x[0] == "Nav":
                out.append(["Nav", x[1], x[2], x[3]])
                return
            if x and x[0] == "Parent":
                out.append(["Parent", x[1]])
                return
            for y in x:
                go(y)

    go(d)
    return out


def _without_blanks_in_fixed_names(expr):
    """a copy of expr whose fixed names have their blanks removed, or None when there is nothing to remove"""
    import copy

    e2 = copy.deepcopy(expr)
    changed = [False]

    def pe(e):
        if e["k"] == "nav":
            if e["fixed"] is not None and " " in e["fixed"][1]:
                e["fixed"] = [e["fixed"][0], e["fixed"][1].replace(" ", "")]
                changed[0] = True
        elif e["k"] == "br":
            for p in e["paths"]:
                for x in p["elems"]:
                    pe(x)

    for p in e2["paths"]:
        for x in p["elems"]:
            pe(x)
    return e2 if changed[0] else None


def strategy(tier):
    ex = st.one_of(G.exprs(depth=0), G.exprs(depth=1), G.exprs(depth=1), G.exprs(depth=1), G.exprs(depth=1), G.exprs(depth=2))
    return st.fixed_dictionaries({"expr": ex, "sp": st.sampled_from(["", "", " "])})


def evaluate(case):
    from arpeggio import NoMatch
    from textx.scoping import rrel

    out = Outcome()
    expr = case["expr"]
    src = G.to_text(expr, case["sp"])
    # history independence: a different expression that differs only by blanks inside quoted fixed names is parsed
    # first; the tree of `src` must still carry its own names (checked against the generated AST below)
    twin = _without_blanks_in_fixed_names(expr)
    if twin is not None:
        out.cls("twin_parsed_first")
        try:
            rrel.parse(G.to_text(twin, case["sp"]))
        except NoMatch:
            pass
    try:
        t1 = rrel.parse(src)
    except NoMatch as e:
        # the generator only emits the documented syntax: a rejection here is not this
        # property's business (C24 covers syntax); counted, not judged
        out.inconclusive = "source_rejected"
        out.cls("source_rejected")
        return out
    has_fixed = "'~" in src.replace(" ", "") or '"~' in src.replace(" ", "")
    out.nontrivial = G.count_nodes(expr) >= 3 and (bool(expr["flags"]) or "^" in src or has_fixed)
    out.cls("flags:" + (expr["flags"] or "none"))
    if "^" in src:
        out.cls("has_caret")
    if has_fixed:
        out.cls("has_fixed_name")
    if "*" in src:
        out.cls("has_star")
    if "parent" in src and "(" in src:
        out.cls("has_parent_or_brackets")
    out.sample = {"src": src, "printed": None}
    s = str(t1)
    out.sample["printed"] = s
    d1 = G.dump_tree(t1)
    want_leaves, got_leaves = _leaves_of_expr(expr), _leaves_of_dump(d1)
    if want_leaves != got_leaves:
        return out.add("parsed_tree_differs_from_source/" + ("fixed_name" if has_fixed else "other"),
                       f"src={src!r}: names in the tree {got_leaves}, written {want_leaves}")
    try:
        t2 = rrel.parse(s)
    except NoMatch as e:
        kind = "fixed_name" if has_fixed else ("flags" if expr["flags"] else "other")
        return out.add(f"printed_form_rejected/{kind}", f"src={src!r} printed={s!r}: {e}")
    d2 = G.dump_tree(t2)
    if d1 != d2:
        if d1[1:4] != d2[1:4]:
            b = "flags_differ"
        else:
            b = "structure_differs"
        return out.add(b, f"src={src!r} printed={s!r} t1={d1} t2={d2}")
    if str(t2) != s:
        out.add("print_not_idempotent", f"{s!r} -> {str(t2)!r}")
    # behavioural corollary
    names = ["a", "b", "parent", "a.b", "b.a", "a.a", "parent.parent", "a.c.a"]
    for mm, m in _models():
        for o in _objects(m):
            for nm in names:
                for cls_name in (None, "A"):
                    cls = mm[cls_name] if cls_name else None
                    try:
                        r1 = _res(rrel.find(o, nm, t1, cls, use_proxy=t1.use_proxy))
                    except Exception as e1:  # noqa: BLE001
                        r1 = ["exc", type(e1).__name__]
                    try:
                        r2 = _res(rrel.find(o, nm, t2, cls, use_proxy=t2.use_proxy))
                    except Exception as e2:  # noqa: BLE001
                        r2 = ["exc", type(e2).__name__]
                    if r1 != r2:
                        return out.add("evaluation_differs", f"src={src!r} printed={s!r} name={nm} r1={r1} r2={r2}")
    return out

LEVEL_TEXT = ("Generated-input search: random RREL trees printed to text, round trip through textX's parser and printer, "
              "structural and behavioural comparison; cannot show absence beyond the generated sizes.")
LEVEL_NOTE = "Trusts the harness' own RREL printer and structural dump; sizes bounded (depth<=2)."
TECHNIQUE = "property-based testing (Hypothesis), round-trip oracle + differential evaluation"
DESIGN_REF = "DESIGN.md section 4, C12"
