"""C18 - a failing multi-file load leaves the model repositories clean.

Domain (fault enumeration): generated import graphs (vt.gen.files); every file of the closure may be
         the failing one, in every phase {syntax error, unknown reference, object processor raising a
         TextXSemanticError / a ValueError, model processor raising, imported file missing} x global
         repository on the metamodel / a repository object held by the caller / none x an earlier
         successful load of an unrelated file (must stay cached) x repaired reload.
Oracle : after the failure the surviving repository (the metamodel's, or the caller's) holds exactly
         the models of earlier successful loads; weak references to the models of the failed attempt
         are dead after gc; after the failing file is rewritten the next load succeeds, returns models
         of the *new* content, and every cross-file reference is the single instance of its target.
"""
import gc
import os
import shutil
import tempfile
import weakref

from hypothesis import strategies as st

from vt.gen import files as F
from vt.harness import Outcome

ID = "C18"
LEVEL = "fault_enumeration"
CASES = {"quick": 2000, "thorough": 100000}
PHASES = ["syntax", "unknown_ref", "obj_processor_textx", "obj_processor_valueerror", "model_processor", "missing_import"]
RULE = ("(graph, failing file, phase) triples: generated import graphs (1-5 files) x failing file drawn from the closure x 6 "
        "phases x repository kind {metamodel global repository, caller-held GlobalModelRepository, none} x provider "
        "{PlainNameImportURI, FQNImportURI}; an unrelated file is loaded successfully first. non-trivial: the failing file is "
        "not the root and is imported by >=2 files, or the graph has a cycle; also: roots loaded from a string (with/without file name) under GlobalRepo providers with a global repository; distinct by canonical JSON")
ASSUMPTIONS = [
    "models of the failed attempt are observed through object/model processors and the repositories' contents",
    "a caller-held repository is filled through GlobalModelRepository.load_model (public API of textx.scoping)",
]
LEVEL_TEXT = ("Fault enumeration over generated import graphs: failing file x phase x repository kind; repository contents, "
              "gc reachability and the repaired reload are checked.")
LEVEL_NOTE = "Trusts gc reachability of weak references and the generator's table of cross-file references."
TECHNIQUE = "fault injection over generated file graphs (Hypothesis) with repository-content, weak-reference and identity oracles"
DESIGN_REF = "DESIGN.md section 4 C18"


class Boom(Exception):
    pass


@st.composite
def cases(draw):
    g = draw(F.file_graphs(max_files=5, allow_glob=False, allow_lib=False))
    return {"graph": g, "fail_pick": draw(st.integers(0, 20)), "phase": draw(st.sampled_from(PHASES)),
            "repo": draw(st.sampled_from(["global", "global", "explicit", "none"])),
            "provider": draw(st.sampled_from(["plain", "fqn"]))}


@st.composite
def string_root_cases(draw):
    """the root model comes from a string (no file name) and sees library files through a GlobalRepo provider"""
    return {"kind": "string_root", "nlib": draw(st.integers(1, 3)),
            "phase": draw(st.sampled_from(["unknown_ref", "obj_processor_textx", "obj_processor_valueerror", "model_processor"])),
            "provider": draw(st.sampled_from(["plain_globalrepo", "fqn_globalrepo"])),
            "uses": draw(st.lists(st.integers(0, 2), max_size=3)), "named": draw(st.booleans())}


def strategy(tier):
    return st.one_of(cases(), cases(), cases(), cases(), string_root_cases())


def eval_string_root(case):
    from textx import metamodel_from_str
    from textx.exceptions import TextXError, TextXSemanticError
    from textx.scoping import providers as P

    out = Outcome()
    phase = case["phase"]
    fqn = case["provider"] == "fqn_globalrepo"
    tmp = os.path.realpath(tempfile.mkdtemp(prefix="vt-c18s-"))
    arm = {"on": False}
    refs = []

    def obj_proc(o):
        if arm["on"] and o.name == "dfault":
            if phase == "obj_processor_textx":
                raise TextXSemanticError("rejected by the harness' object processor")
            if phase == "obj_processor_valueerror":
                raise ValueError("rejected by the harness' object processor")

    def model_proc(model, metamodel):
        try:
            refs.append(weakref.ref(model))
        except TypeError:
            pass
        if arm["on"] and phase == "model_processor" and any(d.name == "dfault" for d in model.defs):
            raise Boom("rejected by the harness' model processor")

    try:
        mm = metamodel_from_str(F.grammar(":FQN" if fqn else "", fqn), global_repository=True)
        pattern = os.path.join(tmp, "lib*.m")
        mm.register_scope_providers({"*.*": P.FQNGlobalRepo(pattern) if fqn else P.PlainNameGlobalRepo(pattern)})
        mm.register_obj_processors({"Def": obj_proc})
        mm.register_model_processor(model_proc)
        for i in range(case["nlib"]):
            with open(os.path.join(tmp, f"lib{i}.m"), "w") as f:
                f.write(f"def l{i}\n")
        uses = "".join(f"use u{k} -> l{j % case['nlib']}\n" for k, j in enumerate(case["uses"]))
        good = "def own\n" + uses
        bad = {"unknown_ref": good + "use ubad -> nowhere\n"}.get(phase, "def dfault\n" + good)
        kw = {"file_name": os.path.join(tmp, "root.m")} if case["named"] else {}
        ctx = f"case={case}"
        out.cls("kind:string_root", "phase:" + phase, "provider:" + case["provider"], "named" if case["named"] else "anonymous")
        out.nontrivial = True
        out.sample = {"root": bad, "libs": case["nlib"], "phase": phase}

        def held():
            return set(mm._tx_model_repository.all_models.filename_to_model)

        keep = mm.model_from_str("def first\n" + uses, **({"file_name": os.path.join(tmp, "first.m")} if case["named"] else {}))
        before = held()
        arm["on"] = True
        try:
            mm.model_from_str(bad, **kw)
            return out.add("fault_not_reported/" + phase, ctx)
        except (TextXError, Boom, ValueError) as e:
            failed = f"{type(e).__name__}: {e}"
        after = held()
        if after - before:
            out.add(f"repository_keeps_failed_models/{phase}/string_root", ctx + f": still holds "
                    f"{sorted(os.path.basename(x) for x in after - before)} after {failed}")
        if before - after:
            out.add(f"repository_lost_earlier_models/{phase}", ctx + f": lost {sorted(os.path.basename(x) for x in before - after)}")
        arm["on"] = False
        gc.collect()
        alive = sum(1 for r in refs if r() is not None and r() is not keep and
                    not any(r() is m for m in mm._tx_model_repository.all_models.filename_to_model.values()))
        if alive:
            out.add(f"failed_models_alive/{phase}/string_root", ctx + f": {alive} models of the failed attempt are still alive")
        # the next loads succeed: the repaired root and an unrelated string
        try:
            m2 = mm.model_from_str(good, **kw)
            mm.model_from_str("def other\n")
        except (TextXError, Boom, ValueError) as e:
            return out.add(f"next_load_fails/{phase}/string_root", ctx + f": {type(e).__name__}: {e}")
        libs = {os.path.basename(k): m for k, m in mm._tx_model_repository.all_models.filename_to_model.items()}
        for k, j in enumerate(case["uses"]):
            lm = libs.get(f"lib{j % case['nlib']}.m")
            if lm is None or m2.uses[k].ref is not lm.defs[0]:
                out.add("repaired_reload/identity", ctx + f": use {k}")
        return out
    finally:
        shutil.rmtree(tmp, ignore_errors=True)


def evaluate(case):
    from textx import metamodel_from_str
    from textx.exceptions import TextXError, TextXSemanticError
    from textx.model_params import ModelParams
    from textx.scoping import GlobalModelRepository, get_included_models
    from textx.scoping import providers as P

    if case.get("kind") == "string_root":
        return eval_string_root(case)
    out = Outcome()
    g = case["graph"]
    cl = F.closure(g, 0)
    bad = cl[case["fail_pick"] % len(cl)]
    phase = case["phase"]
    fqn = case["provider"] == "fqn"
    tmp = os.path.realpath(tempfile.mkdtemp(prefix="vt-c18-"))
    refs = []
    arm = {"on": False}

    def see(m):
        try:
            refs.append(weakref.ref(m))
        except TypeError:
            pass

    def obj_proc(o):
        if arm["on"] and o.name == "dfault":
            if phase == "obj_processor_textx":
                raise TextXSemanticError("rejected by the harness' object processor")
            if phase == "obj_processor_valueerror":
                raise ValueError("rejected by the harness' object processor")

    def model_proc(model, metamodel):
        see(model)
        if arm["on"] and phase == "model_processor" and any(d.name == "dfault" for d in model.defs):
            raise Boom("rejected by the harness' model processor")

    try:
        kw = {"global_repository": True} if case["repo"] == "global" else {}
        mm = metamodel_from_str(F.grammar(":FQN" if fqn else "", fqn), **kw)
        mm.register_scope_providers({"*.*": P.FQNImportURI() if fqn else P.PlainNameImportURI()})
        mm.register_obj_processors({"Def": obj_proc})
        mm.register_model_processor(model_proc)
        fault_text = {
            "syntax": ("", "use broken ->\n"),
            "unknown_ref": ("", "use ubad -> nowhere\n"),
            "obj_processor_textx": ("def dfault\n", ""),
            "obj_processor_valueerror": ("def dfault\n", ""),
            "model_processor": ("def dfault\n", ""),
            "missing_import": ("", ""),
        }[phase]
        extra = {bad: fault_text}
        ts = F.write(g, tmp, fqn, extra=extra)
        if phase == "missing_import":
            p = F.fpath(g, tmp, bad)
            with open(p) as f:
                t = f.read()
            with open(p, "w") as f:
                f.write('import "does_not_exist.m"\n' + t)
        unrelated = os.path.join(tmp, "z_unrelated.m")
        with open(unrelated, "w") as f:
            f.write("def zz { def zs }\nuse uz -> zz\n")
        root = os.path.realpath(F.fpath(g, tmp, 0))
        repo = GlobalModelRepository() if case["repo"] == "explicit" else None

        def load(path):
            if repo is not None:
                return repo.load_model(mm, path, True, model_params=ModelParams({}))
            return mm.model_from_file(path)

        def held():
            if case["repo"] == "global":
                return {os.path.realpath(k) for k in mm._tx_model_repository.all_models.filename_to_model}
            if repo is not None:
                return {os.path.realpath(k) for k in repo.all_models.filename_to_model}
            return set()

        ctx = f"case={case} failing_file={bad}"
        feats = F.features(g, 0)
        importers = sum(1 for x in cl if bad in F.imports_of(g, x))
        out.cls("phase:" + phase, "repo:" + case["repo"], "provider:" + case["provider"])
        out.nontrivial = (bad != 0 and importers >= 2) or "cycle" in feats
        out.sample = {"files": ts, "failing_file": bad, "phase": phase, "repo": case["repo"]}
        # earlier successful load of an unrelated file
        keep = load(unrelated)
        before = held()
        arm["on"] = True
        failed = None
        try:
            load(root)
        except (TextXError, Boom, ValueError, OSError) as e:
            failed = f"{type(e).__name__}: {e}"
        if failed is None:
            out.add("fault_not_reported/" + phase, ctx)
            return out
        after = held()
        if after != before:
            extra_m = sorted(os.path.basename(x) for x in after - before)
            lost = sorted(os.path.basename(x) for x in before - after)
            if extra_m:
                out.add(f"repository_keeps_failed_models/{phase}/{case['repo']}", ctx + f": still holds {extra_m} after {failed}")
            if lost:
                out.add(f"repository_lost_earlier_models/{phase}", ctx + f": lost {lost}")
        gc.collect()
        alive = sum(1 for r in refs if r() is not None and r() is not keep)
        if alive and case["repo"] != "none":
            out.add(f"failed_models_alive/{phase}/{case['repo']}", ctx + f": {alive} models of the failed attempt are still alive")
        # repaired reload
        arm["on"] = False
        F.write(g, tmp, fqn)
        try:
            model = load(root)
        except (TextXError, Boom, ValueError, OSError) as e:
            out.add(f"repaired_reload_fails/{phase}", ctx + f": {type(e).__name__}: {e}")
            return out
        allm = {os.path.realpath(m._tx_filename): m for m in get_included_models(model) if m._tx_filename}
        for i in cl:
            m = allm.get(os.path.realpath(F.fpath(g, tmp, i)))
            if m is None:
                out.add("repaired_reload/file_missing", ctx + f": file {i}")
                continue
            nuses = sum(1 for f, _, _ in g["uses"] if f == i)
            if len(m.uses) != nuses or len(m.defs) != g["ndefs"][i]:
                out.add(f"repaired_reload/stale_model/{phase}", ctx + f": file {i} has {len(m.defs)} defs / {len(m.uses)} uses, "
                        f"the repaired text has {g['ndefs'][i]} / {nuses}")
                continue
            k = 0
            for f, tf, di in g["uses"]:
                if f != i:
                    continue
                tm = allm.get(os.path.realpath(F.fpath(g, tmp, tf)))
                if tm is not None and m.uses[k].ref is not tm.defs[di]:
                    out.add("repaired_reload/identity", ctx + f": file {i} use {k}")
                k += 1
        return out
    finally:
        shutil.rmtree(tmp, ignore_errors=True)
