"""C04 - built-in base types convert text to values faithfully.

Domain : (1) exhaustive: every string over {a, ' ', ', ", \\, \\n} up to a length bound that does
             not end in a backslash, written between either quote with only that quote escaped,
             alone and followed by a second string on the same line;
         (2) random: unicode strings, ints up to 300 digits, finite floats in every literal form
             (repr, %e, %E, %.Nf, trailing dot, leading dot, textual digit/exponent combinations),
             all BOOL spellings.
Oracle : round trip - `Model: v=T;` yields a value equal to the generated one and of the stated
         Python type (int for INT/NUMBER on integers, float for FLOAT/STRICTFLOAT/NUMBER, bool, str).
"""
import itertools
import math

from hypothesis import strategies as st

from vt.harness import Outcome

ID = "C04"
LEVEL = "exploration"
CASES = {"quick": 24000, "thorough": 600000}
EXH_LEN = {"quick": 5, "thorough": 7}
ALPHABET = ["a", " ", "'", '"', "\\", "\n"]
RULE = ("(1) exhaustive enumeration of all strings over {a,' ',',\",\\,\\n} of length <= 5 (quick) / 7 (thorough) not "
        "ending in a backslash x 2 quote styles x {alone, followed by a second string on the same line}; "
        "(2) Hypothesis: unicode text (<=40 chars), ints (<=300 digits, optional sign), finite floats printed as "
        "repr/%e/%E/%.Nf/trailing-dot/leading-dot and textual mantissa/exponent combinations, all six BOOL spellings; "
        "each parsed through every base type the statement names. non-trivial: string has a backslash next to a quote "
        "or both quote kinds; number has a sign or an exponent or a leading/trailing dot; distinct by canonical JSON")
ASSUMPTIONS = [
    "float(text) of CPython is the reference for literal forms that do not round-trip a given float (e.g. %.3f)",
    "the value is the whole input (surrounded by optional blanks), the rule is `Model: v=<TYPE>;`",
]
LEVEL_TEXT = ("Exhaustive over the bounded string alphabet (every string up to the stated length, both quote styles), "
              "random generated search for longer/unicode strings and for numbers; shows the round trip on everything "
              "enumerated/generated, not beyond.")
LEVEL_NOTE = "Trusts CPython's int()/float() as the numeric reference and the harness' literal writer."
TECHNIQUE = "exhaustive enumeration of a bounded alphabet + property-based testing (Hypothesis), round-trip oracle"
DESIGN_REF = "DESIGN.md section 4, C04"

_MM = {}


def _mm(t, many=False, group=False):
    key = (t, many, group)
    if key not in _MM:
        from textx import metamodel_from_str

        _MM[key] = metamodel_from_str(f"Model: v{'*' if many else ''}={t};", **({"use_regexp_group": True} if group is True else {}))
    return _MM[key]


def write_str(s, q):
    return q + s.replace(q, "\\" + q) + q


def enumerate_cases(tier):
    n = EXH_LEN[tier]
    for L in range(0, n + 1):
        for tup in itertools.product(ALPHABET, repeat=L):
            s = "".join(tup)
            if s.endswith("\\"):
                continue
            for q in ("'", '"'):
                yield {"k": "str", "s": s, "q": q, "follow": None}
                # a second string on the same line (chosen to contain both quotes and a backslash)
                yield {"k": "str", "s": s, "q": q, "follow": ["b\\'\"c", "'" if q == '"' else '"']}
    for sp in ["True", "true", "False", "false", "0", "1"]:
        yield {"k": "bool", "text": sp}


def _float_texts():
    digits = st.text("0123456789", min_size=1, max_size=18)
    exp = st.builds(lambda e, s, d: e + s + d, st.sampled_from("eE"), st.sampled_from(["", "+", "-"]),
                    st.text("0123456789", min_size=1, max_size=3))
    mant = st.one_of(
        st.builds(lambda a, b: a + "." + b, digits, digits),
        st.builds(lambda a: a + ".", digits),
        st.builds(lambda b: "." + b, digits),
    )
    sign = st.sampled_from(["", "", "+", "-"])
    with_dot = st.builds(lambda s, m, e: s + m + e, sign, mant, st.one_of(st.just(""), exp))
    int_exp = st.builds(lambda s, m, e: s + m + e, sign, digits, exp)
    return st.one_of(with_dot, with_dot, int_exp)


def _float_forms():
    f = st.floats(allow_nan=False, allow_infinity=False)

    def forms(x):
        alts = [repr(x), "%e" % x, "%E" % x, "%.17g" % x]
        alts += ["%.*f" % (n, x) for n in (1, 3, 20)] if abs(x) < 1e40 else []
        if x == int(x) and abs(x) < 1e18:
            alts.append(str(int(x)) + ".")
        r = repr(abs(x))
        if r.startswith("0.") and "e" not in r:
            alts.append(("-" if math.copysign(1, x) < 0 else "") + r[1:])
        alts = [a for a in alts if ("." in a or "e" in a or "E" in a) and "n" not in a]
        return st.sampled_from(alts)

    return f.flatmap(forms)


def strategy(tier):
    text = st.text(st.characters(blacklist_categories=["Cs"]), max_size=40).filter(lambda s: not s.endswith("\\"))
    spicy = st.text(st.sampled_from(list("ab \n\t'\"\\é\u4e2d/#")), max_size=14).filter(lambda s: not s.endswith("\\"))
    strings = st.fixed_dictionaries({
        "k": st.just("str"), "s": st.one_of(text, spicy), "q": st.sampled_from(["'", '"']),
        "follow": st.one_of(st.none(), st.tuples(spicy, st.sampled_from(["'", '"'])).map(list)),
    })
    ints = st.fixed_dictionaries({
        "k": st.just("int"),
        "text": st.builds(lambda sg, n, z: sg + z + str(n), st.sampled_from(["", "", "-", "+"]),
                          st.one_of(st.integers(0, 10**6), st.integers(10**18, 10**40), st.integers(10**40, 10**300)), st.sampled_from(["", "", "0", "00"])),
    })
    floats = st.fixed_dictionaries({"k": st.just("float"), "text": st.one_of(_float_forms(), _float_texts())})
    return st.one_of(strings, strings, ints, floats, floats)


def _parse(t, text, many=False):
    """returns ('ok', value) | ('err', exception)"""
    from textx.exceptions import TextXError

    try:
        res = ("ok", _mm(t, many).model_from_str(text).v)
    except TextXError as e:
        res = ("err", e)
    # the built-in base types have no documented regexp-group semantics: use_regexp_group=True must not change the outcome
    try:
        res2 = ("ok", _mm(t, many, True).model_from_str(text).v)
    except TextXError as e:
        res2 = ("err", e)
    if res[0] != res2[0] or (res[0] == "ok" and (repr(res[1]), type(res[1])) != (repr(res2[1]), type(res2[1]))):
        _GROUP_DIFFS.append(f"{t} on {text!r}: default {res[0]} {res[1]!r}, use_regexp_group=True {res2[0]} {res2[1]!r}")
    # a user conversion registered for the base type and then withdrawn (register_obj_processors replaces the set) must
    # leave the built-in conversion in force
    mmh = _mm(t, many, "history")
    try:
        mmh.register_obj_processors({t: lambda x: "user-conversion"})
        mmh.register_obj_processors({})
        res3 = ("ok", mmh.model_from_str(text).v)
    except TextXError as e:
        res3 = ("err", e)
    if res[0] != res3[0] or (res[0] == "ok" and (repr(res[1]), type(res[1])) != (repr(res3[1]), type(res3[1]))):
        _HIST_DIFFS.append(f"{t} on {text!r}: fresh metamodel {res[0]} {res[1]!r}, after registering and withdrawing a user "
                           f"processor {res3[0]} {res3[1]!r}")
    return res


_HIST_DIFFS = []


_GROUP_DIFFS = []


def evaluate(case):
    out = _evaluate(case)
    while _GROUP_DIFFS:
        out.add("use_regexp_group_changes_base_type_value", _GROUP_DIFFS.pop())
    while _HIST_DIFFS:
        out.add("withdrawn_user_processor_still_applied", _HIST_DIFFS.pop())
    return out


def _evaluate(case):
    out = Outcome()
    k = case["k"]
    if k == "str":
        s, q, follow = case["s"], case["q"], case["follow"]
        other = '"' if q == "'" else "'"
        bs_q = any(s[i] == "\\" and i + 1 < len(s) and s[i + 1] in "'\"" for i in range(len(s)))
        out.nontrivial = bs_q or (q in s and other in s)
        out.cls("str", "str:q=" + ("single" if q == "'" else "double"))
        if bs_q:
            out.cls("str:backslash_before_quote")
        if "\n" in s:
            out.cls("str:multiline")
        if follow is None:
            text = " " + write_str(s, q) + " "
            out.sample = {"type": "STRING", "text": text}
            st_, v = _parse("STRING", text)
            if st_ == "err":
                return out.add("string/rejected", f"text={text!r}: {v}")
            if type(v) is not str or v != s:
                sub = "backslash_quote" if bs_q else "plain"
                return out.add(f"string/value/{sub}", f"text={text!r} expected={s!r} got={v!r}")
        else:
            out.cls("str:followed")
            s2, q2 = follow
            text = write_str(s, q) + " " + write_str(s2, q2)
            out.sample = {"type": "STRING*", "text": text}
            st_, v = _parse("STRING", text, many=True)
            if st_ == "err":
                return out.add("string_followed/rejected", f"text={text!r}: {v}")
            if v != [s, s2] or any(type(x) is not str for x in v):
                return out.add("string_followed/value", f"text={text!r} expected={[s, s2]!r} got={v!r}")
        return out
    text = case["text"]
    out.sample = {"type": k, "text": text}
    if k == "bool":
        out.nontrivial = True
        exp = text in ("True", "true", "1")
        st_, v = _parse("BOOL", text)
        if st_ == "err":
            return out.add("bool/rejected", f"{text!r}: {v}")
        if type(v) is not bool or v != exp:
            return out.add("bool/value", f"{text!r} -> {v!r}")
        return out.cls("bool")
    if k == "int":
        exp = int(text)
        out.nontrivial = text[0] in "+-" or len(text) > 18
        out.cls("int", "int:signed" if text[0] in "+-" else "int:unsigned")
        if len(text) > 20:
            out.cls("int:big")
        for t in ("INT", "NUMBER"):
            st_, v = _parse(t, text)
            if st_ == "err":
                return out.add(f"int/{t}/rejected", f"{text!r}: {v}")
            if type(v) is not int or v != exp:
                return out.add(f"int/{t}/value", f"{text!r} -> {v!r} ({type(v).__name__})")
        return out
    if k == "float":
        exp = float(text)
        if math.isinf(exp) or math.isnan(exp):
            out.inconclusive = "float_text_overflows"
            return out
        has_exp = "e" in text.lower()
        lead = text.lstrip("+-").startswith(".")
        trail = text.endswith(".") or ".e" in text.lower()
        out.nontrivial = has_exp or text[0] in "+-" or lead or trail
        out.cls("float")
        for lab, c in (("exp", has_exp), ("leading_dot", lead), ("trailing_dot", trail), ("signed", text[0] in "+-")):
            if c:
                out.cls("float:" + lab)
        if lead and has_exp:
            out.cls("float:leading_dot+exp")
        types = ["FLOAT", "STRICTFLOAT", "NUMBER"]
        for t in types:
            st_, v = _parse(t, text)
            if st_ == "err":
                return out.add(f"float/{t}/rejected", f"{text!r}: {v}")
            if type(v) is not float or v != exp or math.copysign(1, v) != math.copysign(1, exp):
                return out.add(f"float/{t}/value", f"{text!r} -> {v!r} ({type(v).__name__}) expected {exp!r}")
        return out
    raise ValueError(k)
