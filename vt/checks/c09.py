"""C09 - postponed resolution reaches the right fixpoint and terminates.

Domain : n references u0..u(n-1) (each to its own definition), every dependency relation
         deps <= refs x refs (self loops and cycles included) and every "never resolves" subset,
         exhaustively for n <= 3 (quick) / n = 4 (thorough) in one file and for every textual order
         (n <= 3); generated n <= 6 spread over 2-3 files connected by imports (cycle included).
         The scope provider is harness code: u_i returns Postponed until every reference in
         deps(u_i) has a resolved value (never, if flagged), then resolves by plain name (locally,
         then in imported models).
Oracle : least fixpoint R on the generated structure.  Success <=> R = all; targets by identity;
         on failure a TextXSemanticError "Unresolvable cross references" naming exactly the
         complement of R; termination by a provider-call bound (n+1 calls per reference), no clock.
"""
import itertools
import os
import re
import shutil
import tempfile

from hypothesis import strategies as st

from vt.harness import Outcome

ID = "C09"
LEVEL = "exploration"
CASES = {"quick": 2500, "thorough": 120000}
RULE = ("exhaustive single-file: n<=3 references, all 2^(n*n) dependency relations x all never-subsets x all textual "
        "orders (quick); n=4 all relations x never-subsets in textual order (thorough); generated multi-file: n<=6 "
        "references over 2-3 files (chain and import cycle), random relation/never/order/file assignment. "
        "non-trivial: resolution needs >=2 rounds, or the relation has a cycle/self loop, or a reference never resolves; "
        "distinct by canonical JSON")
ASSUMPTIONS = [
    "a reference counts as resolved for a waiting provider once its attribute holds the target object",
    "every reference has its own target definition, so the names in the error message identify the references",
    "call bound: every pending reference is offered once per round and every round but the last resolves >=1 reference",
]
LEVEL_TEXT = ("Exhaustive over the bounded dependency space (all relations, never-subsets and textual orders up to the "
              "stated n, one file) plus generated multi-file structures; compared with a least-fixpoint oracle; "
              "termination decided by a call counter.")
LEVEL_NOTE = "Trusts the least-fixpoint oracle and the harness' dependency-driven scope provider as the model of Postponed."
TECHNIQUE = "exhaustive enumeration of dependency structures + property-based testing (Hypothesis) against a least-fixpoint reference model"
DESIGN_REF = "DESIGN.md section 4, C09"

GRAMMAR = r"""
Model: imports*=Import defs*=Def users*=User;
Import: 'import' importURI=STRING;
Def: 'def' name=ID;
User: 'use' name=ID '->' ref=[Def];
"""
# layouts: files and which files each imports; definitions live in the last file
LAYOUTS = {
    "one": {"n": 1, "imports": {0: []}},
    "two": {"n": 2, "imports": {0: [1], 1: []}},
    "cycle3": {"n": 3, "imports": {0: [1, 2], 1: [2], 2: [0]}},
}


class _Runaway(Exception):
    pass


def enumerate_cases(tier):
    nmax = 3
    for n in range(1, nmax + 1):
        pairs = [(i, j) for i in range(n) for j in range(n)]
        for bits in range(1 << len(pairs)):
            deps = [[j for (i2, j) in pairs if i2 == i and bits >> pairs.index((i2, j)) & 1] for i in range(n)]
            for nv in range(1 << n):
                never = [bool(nv >> i & 1) for i in range(n)]
                for order in itertools.permutations(range(n)):
                    yield {"n": n, "deps": deps, "never": never, "order": list(order), "layout": "one", "files": [0] * n}
    if tier == "thorough":
        n = 4
        pairs = [(i, j) for i in range(n) for j in range(n)]
        for bits in range(1 << 16):
            deps = [[j for j in range(n) if bits >> (i * n + j) & 1] for i in range(n)]
            for nv in range(1 << n):
                never = [bool(nv >> i & 1) for i in range(n)]
                yield {"n": n, "deps": deps, "never": never, "order": list(range(n)), "layout": "one", "files": [0] * n}


def strategy(tier):
    def mk(n):
        return st.fixed_dictionaries({
            "n": st.just(n),
            "deps": st.lists(st.lists(st.integers(0, n - 1), max_size=2, unique=True).map(sorted), min_size=n, max_size=n),
            "never": st.lists(st.sampled_from([False, False, False, True]), min_size=n, max_size=n),
            "order": st.permutations(list(range(n))),
            "layout": st.sampled_from(["two", "cycle3", "cycle3"]),
            "files": st.lists(st.integers(0, 2), min_size=n, max_size=n),
        })

    return st.integers(2, 6).flatmap(mk)


def fixpoint(case):
    n = case["n"]
    R = set()
    rounds = 0
    while True:
        new = {i for i in range(n) if i not in R and not case["never"][i] and all(d in R for d in case["deps"][i])}
        if not new:
            return R, rounds
        R |= new
        rounds += 1


def _texts(case):
    lay = LAYOUTS[case["layout"]]
    nf = lay["n"]
    files = [f % nf for f in case["files"]]
    texts = []
    for f in range(nf):
        t = "".join(f'import "f{g}.m"\n' for g in lay["imports"][f])
        if f == nf - 1:
            t += "".join(f"def d{i}\n" for i in range(case["n"]))
        for i in case["order"]:
            if files[i] == f:
                t += f"use u{i} -> d{i}\n"
        texts.append(t)
    return texts


def evaluate(case):
    from textx import metamodel_from_str
    from textx.exceptions import TextXSemanticError
    from textx.scoping import Postponed, get_included_models
    from textx.scoping.providers import ImportURI, PlainName
    from textx.model import get_model

    out = Outcome()
    n = case["n"]
    R, rounds = fixpoint(case)
    ok = len(R) == n
    has_cycle = any(i in case["deps"][i] for i in range(n)) or not ok and not any(case["never"])
    out.nontrivial = rounds >= 2 or any(case["never"]) or not ok
    out.cls("success" if ok else "failure", f"layout:{case['layout']}", f"n={n}", f"rounds={min(rounds, 4)}")
    if any(case["never"]):
        out.cls("has_never")
    if has_cycle:
        out.cls("has_cycle_or_self_loop")
    texts = _texts(case)
    out.sample = {"files": texts, "deps": case["deps"], "never": case["never"]}
    calls = {}
    bound = n + 1

    class DepProvider(ImportURI):
        def __init__(self):
            ImportURI.__init__(self, PlainName())

        def __call__(self, obj, attr, obj_ref):
            i = int(obj.name[1:])
            calls[i] = calls.get(i, 0) + 1
            if calls[i] > 3 * bound + 5:
                raise _Runaway(f"reference u{i} offered {calls[i]} times")
            if case["never"][i]:
                return Postponed()
            users = {}
            for m in get_included_models(get_model(obj)):
                for u in getattr(m, "users", []):
                    users[int(u.name[1:])] = u
            for d in case["deps"][i]:
                if d not in users or users[d].ref is None:
                    return Postponed()
            return ImportURI.__call__(self, obj, attr, obj_ref)

    mm = metamodel_from_str(GRAMMAR)
    mm.register_scope_providers({"User.ref": DepProvider()})
    tmp = None
    try:
        if case["layout"] == "one":
            load = lambda: mm.model_from_str(texts[0])  # noqa: E731
        else:
            tmp = tempfile.mkdtemp(prefix="vt-c09-")
            for f, t in enumerate(texts):
                with open(os.path.join(tmp, f"f{f}.m"), "w") as fh:
                    fh.write(t)
            load = lambda: mm.model_from_file(os.path.join(tmp, "f0.m"))  # noqa: E731
        try:
            model = load()
        except _Runaway as e:
            return out.add("termination/runaway", f"{out.sample}: {e}")
        except TextXSemanticError as e:
            msg = str(e)
            if ok:
                return out.add("fixpoint/resolvable_rejected", f"{out.sample}: {msg}")
            if "Unresolvable cross references" not in msg:
                return out.add("failure/wrong_error", f"{out.sample}: {msg}")
            named = sorted(re.findall(r'"(\w+)" of class "(\w+)" at', msg))
            exp = sorted((f"d{i}", "Def") for i in range(n) if i not in R)
            if named != exp:
                sub = "extra" if len(named) > len(exp) else ("missing" if len(named) < len(exp) else "different")
                return out.add(f"failure/names_{sub}", f"{out.sample}: expected {exp} got {named}: {msg}")
            if max(calls.values(), default=0) > bound:
                return out.add("termination/call_bound", f"{out.sample}: calls={calls} bound={bound}")
            return out
        if not ok:
            return out.add("fixpoint/unresolvable_accepted", f"{out.sample}")
        if max(calls.values(), default=0) > bound:
            return out.add("termination/call_bound", f"{out.sample}: calls={calls} bound={bound}")
        users, defs = {}, {}
        for m in get_included_models(model):
            for u in m.users:
                users[u.name] = u
            for d in m.defs:
                defs[d.name] = d
        if len(users) != n:
            return out.add("model/users_missing", f"{out.sample}: {sorted(users)}")
        for i in range(n):
            if users[f"u{i}"].ref is not defs[f"d{i}"]:
                return out.add("fixpoint/wrong_target", f"{out.sample}: u{i}.ref = {users[f'u{i}'].ref!r}")
        return out
    finally:
        if tmp:
            shutil.rmtree(tmp, ignore_errors=True)
