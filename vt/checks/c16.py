"""C16 - loading is independent of the metamodel's history.

Domain : histories (<= 24 steps) over a pool of 2-3 metamodels built from generated grammars and
         configurations (with / without memoization, a user class, a custom INT processor that makes
         the metamodels' base-type conversions differ), operations: load from string, load from file,
         re-create a metamodel of the pool; inputs valid and invalid (derived and mutated).
Oracle : for every step the observed outcome - structural dump, or error type + message + line +
         column - equals the outcome of the same (grammar, configuration, input) on a metamodel that
         is built from scratch for this single load (memoised per distinct query).  The history
         machine is model-based: the 'model' of a metamodel is just its specification.
"""
import os
import shutil
import tempfile

from hypothesis import strategies as st

from vt import dump as D
from vt.checks import c01
from vt.gen import grammar as G
from vt.gen import inputs as I
from vt.harness import Outcome

ID = "C16"
LEVEL = "exploration"
CASES = {"quick": 600, "thorough": 30000}
RULE = ("generated histories: pool of 2-3 metamodel specifications (generated grammar, options, memoization, optional user "
        "class, optional INT processor), 6 inputs each (40% mutated), 8-24 operations (load_str / load_file / recreate). "
        "non-trivial: a failing load is followed by a successful load on the same metamodel and >=2 metamodels are "
        "interleaved, one of them with memoization; also: histories over a scoping language (imports, RREL provider registered for two separators, global repository on/off) with failing loads and repaired files; distinct by canonical JSON")
ASSUMPTIONS = [
    "fresh state = a metamodel newly built in the same process for the single query (process-global caches such as the "
    "grammar-parser cache are shared; a forking zygote is not used)",
    "user classes are created per metamodel instance (never shared between the history and the fresh metamodel)",
]
LEVEL_TEXT = ("Model-based testing of load histories: every step of a generated history is compared with the same query on a "
              "freshly built metamodel (differential against fresh state).")
LEVEL_NOTE = "Trusts the structural dump and error tuple as the observable outcome."
TECHNIQUE = "stateful/model-based property testing (Hypothesis-generated operation sequences), differential against fresh state"
DESIGN_REF = "DESIGN.md section 4 C16"


@st.composite
def specs(draw):
    g = draw(G.grammars(max_rules=4))
    cfg = draw(G.configs())
    cfg["memoization"] = draw(st.booleans())
    texts = draw(I.inputs_for(g, cfg, n=6))
    names = [r["name"] for r in g["rules"]]
    return {"g": g, "cfg": cfg, "inputs": texts, "int_offset": draw(st.sampled_from([None, None, 1000])),
            "int_fail": draw(st.sampled_from([None, 7, 42, 0])),
            "userclass": draw(st.sampled_from([None, None] + names))}


@st.composite
def cases(draw):
    pool = draw(st.lists(specs(), min_size=2, max_size=3))
    op = st.tuples(st.sampled_from(["str", "str", "str", "file", "recreate"]), st.integers(0, len(pool) - 1), st.integers(0, 5))
    ops = draw(st.lists(op.map(list), min_size=8, max_size=24))
    return {"pool": pool, "ops": ops}


def strategy(tier):
    return st.one_of(cases(), cases(), scoped_cases())


def build(spec):
    from vt.ref import peg

    kinds = peg.kinds(spec["g"])
    classes = []
    uc = spec["userclass"]
    if uc and kinds.get(uc) == "common" and uc != spec["g"]["rules"][0]["name"]:
        def init(self, **kw):
            for k, v in kw.items():
                setattr(self, k, v)

        classes = [type(uc, (object,), {"__init__": init})]
    mm = c01.make_metamodel(spec["g"], spec["cfg"], classes=classes)
    if spec["int_offset"] or spec.get("int_fail") is not None:
        off = spec["int_offset"] or 0
        bad = spec.get("int_fail")

        def conv(x):
            from textx.exceptions import TextXSemanticError

            v = int(x)
            if bad is not None and v == bad:
                # a match processor that rejects a value: the load fails while the object graph is being built
                raise TextXSemanticError(f"value {v} is not allowed")
            return v + off

        mm.register_obj_processors({"INT": conv})
    return mm


def run(mm, text, fname=None):
    from textx.exceptions import TextXError

    try:
        m = mm.model_from_file(fname) if fname else mm.model_from_str(text)
        return ["ok", D.dump_textx(m)]
    except TextXError as e:
        msg = getattr(e, "message", str(e))
        if fname:
            msg = msg.replace(fname, "<file>")
        return ["error", type(e).__name__, msg, e.line, e.col]
    except RecursionError:
        return ["error", "RecursionError"]


def evaluate(case):
    if case.get("kind") == "scoped":
        return eval_scoped(case)
    from textx.exceptions import TextXError

    out = Outcome()
    pool = case["pool"]
    try:
        mms = [build(s) for s in pool]
    except TextXError as e:
        return out.add("grammar_rejected", str(e))
    fresh_cache = {}
    tmp = tempfile.mkdtemp(prefix="vt-c16-")
    last = {}
    nt_fail_then_ok = False
    used = set()
    try:
        for step, (kind, i, j) in enumerate(case["ops"]):
            spec = pool[i]
            if kind == "recreate":
                mms[i] = build(spec)
                continue
            text = spec["inputs"][j % len(spec["inputs"])]
            used.add(i)
            fname = None
            if kind == "file":
                fname = os.path.join(tmp, f"m{i}_{j}.txt")
                with open(fname, "w", newline="") as f:
                    f.write(text)
            got = run(mms[i], text, fname)
            key = (i, text, kind)
            if key not in fresh_cache:
                fresh_cache[key] = run(build(spec), text, fname)
            exp = fresh_cache[key]
            if last.get(i) == "error" and got[0] == "ok":
                nt_fail_then_ok = True
            last[i] = got[0]
            if got != exp:
                sub = "error_differs" if got[0] == exp[0] == "error" else ("model_differs" if got[0] == exp[0] else
                                                                           f"{exp[0]}_became_{got[0]}")
                memo = "memoization" if spec["cfg"]["memoization"] else "plain"
                hist = [f"{k} mm{a} input{b}" for k, a, b in case["ops"][:step + 1]]
                out.add(f"history_dependence/{sub}/{memo}", f"step {step} ({kind} on metamodel {i}, input {text!r}): fresh "
                        f"{str(exp)[:300]} vs {str(got)[:300]}; grammar={G.to_text(spec['g'])!r} cfg={spec['cfg']} "
                        f"int_offset={spec['int_offset']} history={hist}")
                break
        out.nontrivial = nt_fail_then_ok and len(used) >= 2 and any(s["cfg"]["memoization"] for s in pool)
        out.cls(f"pool={len(pool)}", "fail_then_ok" if nt_fail_then_ok else "no_fail_then_ok")
        out.sample = {"ops": case["ops"], "grammars": [G.to_text(s["g"]) for s in pool]}
        return out
    finally:
        shutil.rmtree(tmp, ignore_errors=True)


# -- histories over a scoping language: provider objects, repositories and imports carry the state ---------------
SCOPED_GRAMMAR = r"""
Model: imports*=Import packages*=Package refs*=Ref;
Import: 'import' importURI=STRING;
Package: 'package' name=ID '{' classes*=Cls '}';
Cls: 'class' name=ID;
Ref: 'dot' r=[Cls:DotName] | 'slash' s=[Cls:SlashName];
DotName: ID('.'ID)*;
SlashName[split='/']: ID('/'ID)*;
Comment: /\/\/.*?$/;
"""


@st.composite
def scoped_cases(draw):
    ops = []
    for _ in range(draw(st.integers(3, 8))):
        k = draw(st.integers(0, 9))
        if k < 6:
            ops.append(["str", draw(st.sampled_from(["dot", "slash"])), draw(st.sampled_from(["ok", "ok", "unknown", "syntax"])),
                        draw(st.sampled_from(["a", "b"]))])
        else:
            ops.append(["file", draw(st.sampled_from(["good", "good", "lib_syntax", "lib_missing", "lib_unknown"])),
                        draw(st.sampled_from(["dot", "slash"]))])
    return {"kind": "scoped", "global_repo": draw(st.booleans()), "ops": ops,
            "registration": draw(st.sampled_from(["wildcard_string", "same_object_two_keys"]))}


def _scoped_mm(case):
    from textx import metamodel_from_str
    from textx.scoping.rrel import create_rrel_scope_provider

    kw = {"global_repository": True} if case["global_repo"] else {}
    mm = metamodel_from_str(SCOPED_GRAMMAR, **kw)
    if case["registration"] == "wildcard_string":
        mm.register_scope_providers({"*.*": "+m:packages.classes"})
    else:
        sp = create_rrel_scope_provider("+m:packages.classes")
        mm.register_scope_providers({"Ref.r": sp, "Ref.s": sp, "Import.importURI": sp})
    return mm


def _scoped_outcome(load):
    from textx.exceptions import TextXSemanticError, TextXSyntaxError

    try:
        m = load()
    except TextXSyntaxError as e:
        return ("syntax", e.line, e.col)
    except TextXSemanticError as e:
        return ("semantic", getattr(e, "err_type", None), e.line, e.col, os.path.basename(e.filename or ""))
    except OSError as e:
        return ("oserror", type(e).__name__)
    except Exception as e:  # noqa: BLE001
        from vt.harness import under_test_frame

        if not under_test_frame(e.__traceback__):
            raise
        return ("exception", type(e).__name__)
    targets = []
    for r in m.refs:
        t = r.r or r.s
        # a reference left unresolved (None / not an object of the model) is part of the observed outcome
        targets.append((type(t).__name__, getattr(getattr(t, "parent", None), "name", "?") + "." + str(getattr(t, "name", "?"))))
    return ("ok", targets, [p.name for p in m.packages])


def eval_scoped(case):
    out = Outcome()
    tmp = os.path.realpath(tempfile.mkdtemp(prefix="vt-c16s-"))
    try:
        main = os.path.join(tmp, "main.m")
        lib = os.path.join(tmp, "lib.m")
        hist = _scoped_mm(case)
        lib_loaded_ok = False
        failed_before_ok = ok_after_fail = False
        seen_fail = False
        kinds_used = set()
        out.sample = {"ops": case["ops"], "global_repo": case["global_repo"], "registration": case["registration"]}
        for step, op in enumerate(case["ops"]):
            if op[0] == "str":
                _, sep, how, pkg = op
                s = "." if sep == "dot" else "/"
                name = {"ok": f"{pkg}{s}c1", "unknown": f"{pkg}{s}nope", "syntax": f"{pkg}{s}"}[how]
                text = f"package {pkg} {{ class c1 class c2 }}\n{sep} {name}\n"

                def load(mm, text=text):
                    return mm.model_from_str(text)
            else:
                _, state, sep = op
                s = "." if sep == "dot" else "/"
                if not lib_loaded_ok:
                    # the library file may only change while no successful load has cached it
                    if state == "lib_missing":
                        if os.path.exists(lib):
                            os.unlink(lib)
                    else:
                        with open(lib, "w") as f:
                            f.write({"good": "package l { class lc }\n", "lib_syntax": "package l { class }\n",
                                     "lib_unknown": "package l { class lc }\ndot l.nope\n"}[state])
                with open(main, "w") as f:
                    # main.m never changes (with a global repository it stays cached once it was loaded)
                    f.write('import "lib.m"\npackage m { class mc }\ndot l.lc\nslash m/mc\nslash l/lc\n')

                def load(mm):
                    return mm.model_from_file(main)
            kinds_used.add(op[1] if op[0] == "str" else op[2])
            got = _scoped_outcome(lambda: load(hist))
            want = _scoped_outcome(lambda: load(_scoped_mm(case)))
            if op[0] == "file" and got[0] == "ok":
                lib_loaded_ok = True
            if got[0] != "ok":
                seen_fail = True
            elif seen_fail:
                ok_after_fail = True
            if got != want:
                what = "error" if want[0] != "ok" else ("accept" if got[0] != "ok" else "model")
                out.add(f"scoped_history/{what}/{op[0]}" + ("/global_repo" if case["global_repo"] else ""),
                        f"step {step} of {case['ops']} ({case['registration']}): with history {got}, fresh metamodel {want}")
                break
        out.cls("kind:scoped", "global_repo" if case["global_repo"] else "local_repo", "registration:" + case["registration"])
        out.nontrivial = ok_after_fail and len(kinds_used) >= 2
        return out
    finally:
        shutil.rmtree(tmp, ignore_errors=True)
