"""C15 - a failed load leaves nothing behind.

Domain (fault enumeration): failure kinds {syntax error, unknown reference, unresolvable postponed
         reference, exception from a scope provider, from an object processor at the k-th call, from
         a model processor, from the k-th user-class __init__} x user classes on/off x single- /
         multi-file (the fault located in the main or in an imported file) x generated model sizes.
Oracle : (a) weak references to every model object seen during the load (arguments of scope
             providers and processors, containment walks from them, user-class __new__) are dead
             once the exception is dropped and the garbage collector has run;
         (b) user classes: attribute-access methods are the originals, no per-object storage left;
         (c) the same metamodel then loads a valid model, and its dump equals the dump produced by
             a fresh metamodel; re-running the failing load gives the same error type, message,
             line and column.
"""
import gc
import os
import shutil
import tempfile
import weakref

from hypothesis import strategies as st

from vt import dump as D
from vt.checks.c14 import Boom, compare_state, make_class, snapshot
from vt.harness import Outcome

ID = "C15"
LEVEL = "fault_enumeration"
CASES = {"quick": 2500, "thorough": 120000}
KINDS = ["syntax", "unknown_ref", "postponed_forever", "provider_raises", "obj_processor_raises", "model_processor_raises",
         "init_raises", "match_processor_raises"]
RULE = ("fault kind x fault position k (0..5, index of the provider / processor / constructor call that fails, or of the "
        "definition whose text is damaged) x user classes on/off x 1-3 files x file that carries the fault x model size "
        "(1-4 definitions with nested sub-definitions per file). non-trivial: the failure happens after >=2 objects were "
        "built; distinct by canonical JSON")
ASSUMPTIONS = [
    "objects are observed through scope-provider and processor arguments (plus a containment walk from them) and through "
    "__new__ of the user classes; an object never seen there is covered only through its container",
    "'nothing reachable' is decided by the garbage collector after the exception object is dropped",
]
LEVEL_TEXT = ("Fault enumeration: every failure kind injected at generated positions of generated single- and multi-file "
              "loads; reachability through weak references, class state by snapshot, later loads differential against a "
              "fresh metamodel.")
LEVEL_NOTE = "Trusts gc reachability of weak references taken at the observation points listed in the assumptions."
TECHNIQUE = "fault injection over generated loads (Hypothesis) with weak-reference, snapshot and differential oracles"
DESIGN_REF = "DESIGN.md section 4 C15"

GRAMMAR = r"""
Model: imports*=Import defs*=Def uses*=Use;
Import: 'import' importURI=STRING;
Def: 'def' name=ID ('{' subs+=Def '}')?;
Use: 'use' name=ID '->' ref=[Def];
"""


@st.composite
def cases(draw):
    nfiles = draw(st.integers(1, 3))
    return {"kind": draw(st.sampled_from(KINDS)), "k": draw(st.integers(0, 5)), "userclasses": draw(st.booleans()),
            "style": draw(st.sampled_from(["plain", "slots", "frozen", "dunder"])),
            "nfiles": nfiles, "fault_file": draw(st.integers(0, nfiles - 1)),
            "ndefs": draw(st.integers(1, 4)), "global_repo": draw(st.booleans())}


def strategy(tier):
    return cases()


def texts(case, damaged):
    n = case["nfiles"]
    out = []
    for i in range(n):
        t = "".join(f'import "f{j}.m"\n' for j in range(i + 1, n))
        for d in range(case["ndefs"]):
            t += f"def d{i}_{d} {{ def s{i}_{d} }}\n"
        for d in range(case["ndefs"]):
            t += f"use u{i}_{d} -> d{i}_{d}\n"
        if i + 1 < n:
            t += f"use x{i} -> d{i + 1}_0\n"
        if damaged and i == case["fault_file"]:
            if case["kind"] == "syntax":
                lines = t.splitlines()
                idx = min(case["k"], len(lines) - 1)
                lines[idx] = lines[idx] + " %%"
                t = "\n".join(lines) + "\n"
            elif case["kind"] == "unknown_ref":
                t += "use bad -> nowhere\n"
            elif case["kind"] in ("postponed_forever", "provider_raises"):
                t += f"use special -> d{i}_0\n"
        out.append(t)
    return out


def build(case, refs, events, arm):
    """a metamodel with recording providers / processors; `arm` is a dict switched on for the failing run"""
    from textx import get_children, get_model, metamodel_from_str
    from textx.scoping import Postponed
    from textx.scoping.providers import ImportURI, PlainName

    rec = {"inits": [], "events": events, "fail_at": None}
    classes = []
    if case["userclasses"]:
        Def = make_class("Def", case["style"], ["name", "subs"], rec)
        Use = make_class("Use", "plain", ["name", "ref"], rec)
        for c in (Def, Use):
            orig_new = c.__new__

            def __new__(cls, *a, **k):
                o = object.__new__(cls)
                try:
                    refs.append(weakref.ref(o))
                except TypeError:
                    pass
                return o

            c.__new__ = __new__
        classes = [Def, Use]
    kw = {"global_repository": True} if case["global_repo"] else {}
    mm = metamodel_from_str(GRAMMAR, classes=classes, **kw)

    def see(o):
        try:
            root = get_model(o)
            for x in [root] + get_children(lambda _: True, root):
                try:
                    refs.append(weakref.ref(x))
                except TypeError:
                    pass
        except Exception:  # noqa: BLE001
            pass

    class Provider(ImportURI):
        def __init__(self):
            ImportURI.__init__(self, PlainName())

        def __call__(self, obj, attr, obj_ref):
            see(obj)
            if arm.get("on") and obj.name == "special":
                if case["kind"] == "postponed_forever":
                    return Postponed()
                if case["kind"] == "provider_raises":
                    raise Boom("scope provider failure injected by the harness")
            return ImportURI.__call__(self, obj, attr, obj_ref)

    counter = {"proc": 0}

    def proc(o):
        see(o)
        if arm.get("on") and case["kind"] == "obj_processor_raises":
            if counter["proc"] == case["k"]:
                counter["proc"] += 1
                raise Boom("object processor failure injected by the harness")
            counter["proc"] += 1
        return None

    def model_proc(model, metamodel):
        see(model)
        if arm.get("on") and case["kind"] == "model_processor_raises":
            raise Boom("model processor failure injected by the harness")

    def id_proc(value):
        # a match (base type) processor: runs while the object graph is being built
        if arm.get("on") and case["kind"] == "match_processor_raises":
            if counter["match"] == case["k"]:
                counter["match"] += 1
                raise Boom("match processor failure injected by the harness")
            counter["match"] += 1
        return value

    counter["match"] = 0
    mm.register_scope_providers({"Use.ref": Provider()})
    mm.register_obj_processors({"Def": proc, "Use": proc, "ID": id_proc})
    mm.register_model_processor(model_proc)
    return mm, classes, rec, counter


def write_files(tmp, ts):
    for i, t in enumerate(ts):
        with open(os.path.join(tmp, f"f{i}.m"), "w") as f:
            f.write(t)
    return os.path.join(tmp, "f0.m")


def dump_all(model):
    from textx.scoping import get_included_models

    res = {}
    for m in get_included_models(model):
        res[os.path.basename(m._tx_filename or "<str>")] = D.dump_textx(m)
    return res


def evaluate(case):
    from textx.exceptions import TextXError

    out = Outcome()
    refs, events, arm = [], [], {"on": False}
    mm, classes, rec, counter = build(case, refs, events, arm)
    before = snapshot(classes)
    tmp = tempfile.mkdtemp(prefix="vt-c15-")
    ctx = f"case={case}"
    out.cls("kind:" + case["kind"], f"files={case['nfiles']}", "userclasses" if classes else "generic",
            "global_repo" if case["global_repo"] else "local_repo")
    out.sample = case
    try:
        main = write_files(tmp, texts(case, damaged=True))
        arm["on"] = True
        rec["fail_at"] = case["k"] if case["kind"] == "init_raises" and classes else None
        counter["proc"] = counter["match"] = 0
        err = None
        try:
            mm.model_from_file(main)
        except (TextXError, Boom) as e:
            err = (type(e).__name__, getattr(e, "message", str(e)), getattr(e, "line", None), getattr(e, "col", None))
        nobj = len(refs)
        if err is None:
            # the fault did not fire (k beyond the number of calls, or init fault without user classes)
            out.cls("fault_not_reached")
            return out
        gc.collect()
        alive = [r() for r in refs if r() is not None]
        if alive:
            kinds = sorted({type(o).__name__ for o in alive})
            del alive
            out.add("reachable_after_failure/" + case["kind"], ctx + f": {kinds} objects of the failed load are still alive "
                    f"({nobj} observed); error was {err}")
        else:
            del alive
        compare_state(out, ctx, classes, before, "after_failed_load")
        # (c) same error again
        refs2 = []
        counter["proc"] = counter["match"] = 0
        rec["inits"] = []
        err2 = None
        try:
            mm.model_from_file(main)
        except (TextXError, Boom) as e:
            err2 = (type(e).__name__, getattr(e, "message", str(e)), getattr(e, "line", None), getattr(e, "col", None))
        if err2 != err:
            out.add("second_failing_load_differs", ctx + f": first {err}, second {err2}")
        compare_state(out, ctx, classes, before, "after_second_failed_load")
        # (c) a valid model afterwards == fresh metamodel
        arm["on"] = False
        rec["fail_at"] = None
        write_files(tmp, texts(case, damaged=False))
        try:
            d1 = dump_all(mm.model_from_file(main))
        except (TextXError, Boom) as e:
            out.add("valid_load_after_failure_fails/" + case["kind"], ctx + f": {type(e).__name__}: {e}")
            return out
        mm2, classes2, rec2, _ = build(case, [], [], {"on": False})
        d2 = dump_all(mm2.model_from_file(main))
        if d1 != d2:
            out.add("valid_load_after_failure_differs", ctx + f": files {sorted(d1)} vs {sorted(d2)}")
        compare_state(out, ctx, classes, before, "after_valid_load")
        out.nontrivial = nobj >= 2
        return out
    finally:
        shutil.rmtree(tmp, ignore_errors=True)
