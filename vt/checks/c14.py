"""C14 - user classes are constructed once with exactly the grammar attributes.

Domain : generated grammars with a generated subset of common rules bound to generated user classes
         of four styles (plain, __slots__, frozen after __init__, own __setattr__/__getattribute__/
         __delattr__), given as a list or as a callable; successful loads and loads that fail
         (failing __init__ at the k-th object, failing object processor, unknown reference in a
         second fixed grammar family, single- and multi-file); a nested load of the same metamodel
         from inside an object processor.
Oracle : recording __init__: exactly once per object of a user class (object count from the
         reference interpreter); keyword arguments == the rule's attributes (+ parent iff contained);
         values already final; every __init__ precedes every object-processor call; after the load -
         successful or not - for every user class the entries __setattr__ / __getattribute__ /
         __delattr__ / __getattr__ / _tx_instrumented / _tx_real_* of vars(cls) equal the snapshot
         taken before the load (identity) and cls._tx_obj_attrs == {}.
"""
import os
import shutil
import tempfile

from hypothesis import strategies as st

from vt import dump as D
from vt.checks import c01
from vt.gen import grammar as G
from vt.gen import inputs as I
from vt.harness import Outcome
from vt.ref import peg

ID = "C14"
LEVEL = "exploration"
CASES = {"quick": 3000, "thorough": 150000}
STYLES = ["plain", "slots", "frozen", "dunder"]
WATCH = ("__setattr__", "__getattribute__", "__delattr__", "__getattr__", "_tx_instrumented",
         "_tx_real_setattr", "_tx_real_getattribute", "_tx_real_delattr", "_tx_real_getattr")
RULE = ("(a) generated grammars x 3 derived inputs with 1-3 user classes of generated styles, faults: none / __init__ of the "
        "k-th object raises / an object processor raises / nested load; (b) fixed import grammar with user classes, 1-3 "
        "files, optional unknown reference in the main or an imported file. non-trivial: >=2 user classes of different "
        "styles one contained in the other, or a failing / nested / multi-file load; distinct by canonical JSON")
ASSUMPTIONS = [
    "user classes accept their attributes as keyword arguments (documented contract)",
    "class state compared: the attribute-access dunder methods, textX's bookkeeping attributes and _tx_obj_attrs",
]
LEVEL_TEXT = ("Generated grammars, user-class styles and fault points; constructor log and class state compared with the "
              "reference model's object counts and a before/after snapshot.")
LEVEL_NOTE = "Trusts the reference interpreter for object counts and attribute names."
TECHNIQUE = "property-based testing + fault injection (Hypothesis) with recording user classes"
DESIGN_REF = "DESIGN.md section 4 C14"

IMPORT_GRAMMAR = r"""
Model: imports*=Import defs*=Def uses*=Use;
Import: 'import' importURI=STRING;
Def: 'def' name=ID;
Use: 'use' name=ID '->' ref=[Def];
"""


@st.composite
def cases(draw):
    if draw(st.integers(0, 9)) < 7:
        g = draw(G.grammars(max_rules=5, min_rules=2, modifiers=False, comments=False, eolterm=False))
        cfg = {"skipws": True, "ws": None, "auto_init_attributes": draw(st.booleans()), "use_regexp_group": False}
        texts = draw(I.inputs_for(g, cfg, n=3, mutate=False))
        names = [r["name"] for r in g["rules"]]
        uc = draw(st.lists(st.tuples(st.sampled_from(names), st.sampled_from(STYLES)).map(list), min_size=1, max_size=3,
                           unique_by=lambda t: t[0]))
        return {"kind": "grammar", "g": g, "cfg": cfg, "inputs": texts, "classes": uc, "as_callable": draw(st.booleans()),
                "fault": draw(st.sampled_from([None, None, ["init", 0], ["init", 1], ["init", 3], ["proc", 0], ["proc", 2],
                                               ["nested", 0], ["match", 0], ["match", 1], ["match", 3]]))}
    nfiles = draw(st.integers(1, 3))
    return {"kind": "imports", "nfiles": nfiles, "styles": [draw(st.sampled_from(STYLES)) for _ in range(2)],
            "bad_file": draw(st.sampled_from([None, None, 0, 1, 2])), "fault": draw(st.sampled_from([None, ["init", 1]])),
            "as_callable": draw(st.booleans())}


def strategy(tier):
    return cases()


class Boom(Exception):
    pass


def make_class(name, style, attrs, rec):
    """rec: dict with 'inits' (list of (cls, id, sorted kwargs keys)), 'fail_at' (int or None), 'events' list"""

    def __init__(self, **kw):
        rec["inits"].append((name, id(self), sorted(kw), {k: type(v).__name__ for k, v in kw.items()}))
        rec["events"].append(("init", name))
        if rec.get("fail_at") is not None and len(rec["inits"]) - 1 == rec["fail_at"]:
            raise Boom("constructor failure injected by the harness")
        for k, v in kw.items():
            object.__setattr__(self, k, v)
        if style == "frozen":
            object.__setattr__(self, "_frozen", True)
        rec.setdefault("inited", set()).add(id(self))

    ns = {"__init__": __init__}
    if style == "slots":
        ns["__slots__"] = tuple(sorted(set(attrs) | {"parent", "__weakref__"}))
    if style == "frozen":
        def __setattr__(self, k, v):
            if getattr(self, "_frozen", False):
                raise AttributeError("frozen")
            object.__setattr__(self, k, v)

        ns["__setattr__"] = __setattr__
    if style == "dunder":
        def __setattr__(self, k, v):
            object.__setattr__(self, k, v)

        def __getattribute__(self, k):
            return object.__getattribute__(self, k)

        def __delattr__(self, k):
            object.__delattr__(self, k)

        ns.update(__setattr__=__setattr__, __getattribute__=__getattribute__, __delattr__=__delattr__)
    return type(name, (object,), ns)


def snapshot(classes):
    return {c.__name__: {k: c.__dict__.get(k, "<absent>") for k in WATCH} for c in classes}


def compare_state(out, ctx, classes, before, phase):
    for c in classes:
        now = {k: c.__dict__.get(k, "<absent>") for k in WATCH}
        for k in WATCH:
            if now[k] is not before[c.__name__][k]:
                out.add(f"class_state/{phase}/{k.strip('_')}", ctx + f": {c.__name__}.{k} is {now[k]!r}, was {before[c.__name__][k]!r}")
                break
        left = getattr(c, "_tx_obj_attrs", {})
        if left:
            out.add(f"class_state/{phase}/obj_attrs_left", ctx + f": {c.__name__}._tx_obj_attrs keeps {len(left)} entries")


def evaluate(case):
    from textx import metamodel_from_str
    from textx.exceptions import TextXError

    out = Outcome()
    if case["kind"] == "imports":
        return eval_imports(case, out)
    g, cfg = case["g"], case["cfg"]
    gtext = G.to_text(g)
    kinds = peg.kinds(g)
    ainfo = peg.attr_info(g)
    rec = {"inits": [], "events": [], "fail_at": None}
    root = g["rules"][0]["name"]
    # the model root carries textX's _tx_* attributes, so its class needs a __dict__: no __slots__ style there
    classes = [make_class(n, "plain" if (n == root and s == "slots") else s, list(ainfo[n]), rec)
               for n, s in case["classes"] if kinds[n] == "common"]
    if not classes:
        out.inconclusive = "no_common_rule_selected"
        return out
    by = {c.__name__: c for c in classes}
    try:
        mm = c01.make_metamodel(g, cfg, classes=(lambda n: by.get(n)) if case["as_callable"] else classes)
    except TextXError as e:
        return out.add("grammar_rejected", f"{gtext!r}: {e}")
    fault = case["fault"]
    pcount = [0]
    nested = [0]

    def mk(rule):
        def proc(o):
            rec["events"].append(("proc", rule))
            if fault and fault[0] == "proc" and pcount[0] == fault[1]:
                pcount[0] += 1
                raise Boom("processor failure injected by the harness")
            pcount[0] += 1
            if fault and fault[0] == "nested" and nested[0] == 0:
                nested[0] = 1
                try:
                    mm.model_from_str(nested_text[0])
                except TextXError:
                    pass
            return None

        return proc

    mcount = [0]

    def mk_match(base):
        conv = {"INT": int, "ID": str, "STRING": lambda x: x[1:-1]}[base]

        def proc(x):
            # a base-type (match) processor runs while the object graph is being built
            if fault and fault[0] == "match" and mcount[0] == fault[1]:
                mcount[0] += 1
                raise Boom("match processor failure injected by the harness")
            mcount[0] += 1
            return conv(x)

        return proc

    procs = {r["name"]: mk(r["name"]) for r in g["rules"] if kinds[r["name"]] != "match"}
    if fault and fault[0] == "match":
        procs.update({b: mk_match(b) for b in ("INT", "ID", "STRING")})
    mm.register_obj_processors(procs)
    before = snapshot(classes)
    styles = {s for n, s in case["classes"] if kinds[n] == "common"}
    out.cls("fault:" + (fault[0] if fault else "none"), "as_callable" if case["as_callable"] else "as_list")
    for s in styles:
        out.cls("style:" + s)
    out.sample = {"grammar": gtext, "classes": case["classes"], "fault": fault, "inputs": case["inputs"][:2]}
    nested_text = [case["inputs"][0]]
    nt = False
    for text in case["inputs"]:
        res, it = peg.parse(g, cfg, text)
        if res[0] != "ok" or not isinstance(res[1], peg.Obj):
            continue
        rec["inits"], rec["events"] = [], []
        rec["fail_at"] = fault[1] if fault and fault[0] == "init" else None
        pcount[0] = 0
        mcount[0] = 0
        nested[0] = 0
        ctx = f"grammar={gtext!r} classes={case['classes']} fault={fault} input={text!r}"
        failed = None
        try:
            mm.model_from_str(text)
        except (TextXError, Boom, TypeError) as e:
            failed = e
        compare_state(out, ctx, classes, before, "after_failed_load" if failed else "after_load")
        exp = [(o, o.parent) for o in it.objs if o.cls in by]
        injected = fault is not None and fault[0] in ("init", "proc", "match")
        if failed is not None and not injected:
            out.add("load_failed/" + type(failed).__name__, ctx + f": {failed}")
            continue
        if failed is None and fault is None:
            if len(rec["inits"]) != len(exp):
                out.add("init_count", ctx + f": {len(rec['inits'])} __init__ calls for {len(exp)} objects of user classes")
            if len({i[1] for i in rec["inits"]}) != len(rec["inits"]):
                out.add("init_twice", ctx + ": an object was initialised twice")
            want = sorted((o.cls, sorted(list(ainfo[o.cls]) + (["parent"] if p is not None else []))) for o, p in exp)
            got = sorted((n, ks) for n, _, ks, _ in rec["inits"])
            if want != got and len(rec["inits"]) == len(exp):
                out.add("init_kwargs", ctx + f": expected {want}, got {got}")
            ev = [e[0] for e in rec["events"]]
            if "proc" in ev and "init" in ev[ev.index("proc"):]:
                out.add("init_after_processor", ctx + f": events {rec['events'][:12]}")
            for n, _, ks, types in rec["inits"]:
                if any(t in ("ObjCrossRef", "Postponed") for t in types.values()):
                    out.add("init_unresolved_reference", ctx + f": {n} got {types}")
        if (len(styles) >= 2 and any(p is not None and p.cls in by for o, p in exp)) or fault:
            nt = True
    out.nontrivial = nt
    return out


def eval_imports(case, out):
    from textx import metamodel_from_str
    from textx.exceptions import TextXError
    from textx.scoping.providers import PlainNameImportURI

    rec = {"inits": [], "events": [], "fail_at": case["fault"][1] if case["fault"] else None}
    Def = make_class("Def", case["styles"][0], ["name"], rec)
    Use = make_class("Use", case["styles"][1], ["name", "ref"], rec)
    classes = [Def, Use]
    by = {"Def": Def, "Use": Use}
    mm = metamodel_from_str(IMPORT_GRAMMAR, classes=(lambda n: by.get(n)) if case["as_callable"] else classes)
    mm.register_scope_providers({"*.*": PlainNameImportURI()})
    early = []

    def def_proc(o):
        rec["events"].append(("proc", "Def"))

    def use_proc(o):
        rec["events"].append(("proc", "Use"))
        # the processed object and the (possibly cross-file) object it refers to are initialised user objects
        for x in (o, o.ref):
            if id(x) not in rec.get("inited", set()):
                early.append(type(x).__name__)

    mm.register_obj_processors({"Def": def_proc, "Use": use_proc})
    before = snapshot(classes)
    n = case["nfiles"]
    bad = case["bad_file"] if case["bad_file"] is not None and case["bad_file"] < n else None
    tmp = tempfile.mkdtemp(prefix="vt-c14-")
    try:
        for i in range(n):
            t = "".join(f'import "f{j}.m"\n' for j in range(i + 1, n)) + f"def d{i}\nuse u{i} -> d{i}\n"
            if i + 1 < n:
                t += f"use v{i} -> d{i + 1}\n"
            if bad == i:
                t += "use w -> nowhere\n"
            with open(os.path.join(tmp, f"f{i}.m"), "w") as f:
                f.write(t)
        ctx = f"imports: files={n} bad_file={bad} fault={case['fault']} styles={case['styles']}"
        failed = None
        try:
            mm.model_from_file(os.path.join(tmp, "f0.m"))
        except (TextXError, Boom) as e:
            failed = e
        compare_state(out, ctx, classes, before, "after_failed_multifile_load" if failed else "after_multifile_load")
        if failed is None and (bad is not None):
            out.add("imports/unknown_reference_accepted", ctx)
        if failed is not None and bad is None and not case["fault"]:
            out.add("imports/load_failed", ctx + f": {failed}")
        if failed is None and not case["fault"]:
            ev = [e[0] for e in rec["events"]]
            if early:
                out.add("imports/processor_saw_uninitialised_user_object", ctx + f": {early[:3]}")
            elif "proc" in ev and "init" in ev[ev.index("proc"):]:
                out.add("imports/init_after_processor", ctx + f": events {rec['events'][:14]}")
            nobj = n + n + (n - 1)
            if len(rec["inits"]) != nobj:
                out.add("imports/init_count", ctx + f": {len(rec['inits'])} __init__ calls for {nobj} objects")
        out.cls("kind:imports", f"files={n}", "failing" if failed else "ok")
        out.nontrivial = n >= 2 or failed is not None
        out.sample = {"imports": ctx}
        return out
    finally:
        shutil.rmtree(tmp, ignore_errors=True)
