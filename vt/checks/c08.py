"""C08 - reference lists keep the textual order of the references.

Domain : one or two list-valued reference attributes (length <= 3 quick / 4 thorough exhaustively,
         5 random), every assignment of targets (duplicates included) x every postponement schedule
         (element i returns Postponed on its first k_i calls, k_i in 0..3), plus a single-valued
         reference with its own k that keeps rounds productive while all list elements wait.
Oracle : round simulation on the generated schedule (the resolver calls every pending reference once
         per round and stops when a round resolves nothing): on predicted success the list equals
         the targets in textual order (identity); on predicted no-progress the load fails with
         "Unresolvable cross references".
"""
import itertools

from hypothesis import strategies as st

from vt.harness import Outcome

ID = "C08"
LEVEL = "exploration"
CASES = {"quick": 3000, "thorough": 150000}
EXH_N = {"quick": 3, "thorough": 4}
RULE = ("exhaustive: list length n<=3 (quick) / n<=4 (thorough), every target assignment over 3 definitions "
        "(duplicates allowed) x every schedule k in {0..3}^n, with and without a productive single reference; "
        "generated: two lists per object / two objects, n<=5, schedules k<=4. non-trivial: some element is postponed "
        "while a later element of the same list resolves in an earlier round; distinct by canonical JSON")
ASSUMPTIONS = [
    "a scope provider may return Postponed any number of times; the resolver offers every pending reference once per round",
    "the wrapped provider is the default PlainName provider",
]
LEVEL_TEXT = ("Exhaustive over the bounded schedule space (all target assignments x all postponement schedules up to the "
              "stated list length) plus generated longer lists; order compared by identity with the textual order.")
LEVEL_NOTE = "Trusts the round simulation (one call per pending reference per round) as the model of a scope provider's freedom."
TECHNIQUE = "exhaustive schedule enumeration + property-based testing (Hypothesis) with a harness-owned postponing scope provider"
DESIGN_REF = "DESIGN.md section 4, C08"

GRAMMAR = r"""
Model: defs+=Def lists+=L;
Def: 'def' name=ID;
L: 'list' name=ID ('first' first=[Def])? ':' refs+=[Def][','] (';' more+=[Def][','])?;
"""
DEFS = ["a", "b", "c"]
_MM = None


def _mm():
    global _MM
    if _MM is None:
        from textx import metamodel_from_str

        _MM = metamodel_from_str(GRAMMAR)
    return _MM


def enumerate_cases(tier):
    nmax = EXH_N[tier]
    for n in range(1, nmax + 1):
        for targets in itertools.product(range(3), repeat=n):
            for ks in itertools.product(range(4), repeat=n):
                yield {"lists": [{"refs": list(targets), "ks": list(ks), "more": [], "ks2": [], "first": None}]}
                if min(ks) >= 1:
                    # the same schedule kept productive by a single reference that resolves at once
                    yield {"lists": [{"refs": list(targets), "ks": list(ks), "more": [], "ks2": [], "first": [0, 0]}]}


def strategy(tier):
    def lst():
        n = st.integers(1, 5)
        return n.flatmap(lambda k: st.fixed_dictionaries({
            "refs": st.lists(st.integers(0, 2), min_size=k, max_size=k),
            "ks": st.lists(st.integers(0, 4), min_size=k, max_size=k),
        })).flatmap(lambda d: st.integers(0, 3).flatmap(lambda m: st.fixed_dictionaries({
            "refs": st.just(d["refs"]), "ks": st.just(d["ks"]),
            "more": st.lists(st.integers(0, 2), min_size=m, max_size=m),
            "ks2": st.lists(st.integers(0, 4), min_size=m, max_size=m),
            "first": st.one_of(st.none(), st.tuples(st.integers(0, 2), st.integers(0, 3)).map(list)),
        })))

    return st.fixed_dictionaries({"lists": st.lists(lst(), min_size=1, max_size=2)})


def _text(case):
    """returns (text, {(list name, attr): [offset of each reference token in textual order]})"""
    text = ""
    offs = {}
    for d in DEFS:
        text += f"def {d}\n"
    for i, l in enumerate(case["lists"]):
        name = f"l{i}"
        text += f"list {name}"
        offs[(name, "first")] = []
        if l["first"] is not None:
            text += " first "
            offs[(name, "first")].append(len(text))
            text += DEFS[l["first"][0]]
        text += " : "
        for attr, targets, sep in (("refs", l["refs"], " , "), ("more", l["more"], ", ")):
            offs[(name, attr)] = []
            if attr == "more" and targets:
                text += " ; "
            for j, t in enumerate(targets):
                if j:
                    text += sep
                offs[(name, attr)].append(len(text))
                text += DEFS[t]
        text += "\n"
    return text, offs


def _simulate(case):
    """returns (success?, rounds) - every pending reference is offered once per round"""
    pend = []
    for l in case["lists"]:
        pend += list(l["ks"]) + list(l["ks2"]) + ([l["first"][1]] if l["first"] is not None else [])
    r = 0
    while pend:
        r += 1
        left = [k for k in pend if k >= r]
        if len(left) == len(pend):
            return False, r
        pend = left
    return True, r


def evaluate(case):
    from textx.exceptions import TextXSemanticError
    from textx.scoping import Postponed
    from textx.scoping.providers import PlainName

    out = Outcome()
    mm = _mm()
    text, offs = _text(case)
    sched = {}
    for i, l in enumerate(case["lists"]):
        sched[(f"l{i}", "refs")] = l["ks"]
        sched[(f"l{i}", "more")] = l["ks2"]
        sched[(f"l{i}", "first")] = [l["first"][1]] if l["first"] is not None else []
    calls = {}
    plain = PlainName()
    bad_pos = []

    def provider(obj, attr, obj_ref):
        key = (obj.name, attr.name)
        try:
            idx = offs[key].index(obj_ref.position)
        except ValueError:
            bad_pos.append((key, obj_ref.position))
            return plain(obj, attr, obj_ref)
        c = calls.get((key, idx), 0) + 1
        calls[(key, idx)] = c
        if c <= sched[key][idx]:
            return Postponed()
        return plain(obj, attr, obj_ref)

    mm.register_scope_providers({"L.refs": provider, "L.more": provider, "L.first": provider})
    ok, rounds = _simulate(case)
    # non-trivial: an element waits while a later element of the same list resolves earlier
    nt = False
    for l in case["lists"]:
        for ks in (l["ks"], l["ks2"]):
            for i in range(len(ks)):
                if any(ks[j] < ks[i] for j in range(i + 1, len(ks))):
                    nt = True
    out.nontrivial = nt and ok
    out.cls("predicted_success" if ok else "predicted_no_progress", f"rounds={min(rounds, 5)}")
    if nt:
        out.cls("later_element_resolves_first")
    if len(case["lists"]) > 1 or any(l["more"] for l in case["lists"]):
        out.cls("several_lists")
    out.sample = {"text": text, "schedule": {f"{k[0]}.{k[1]}": v for k, v in sched.items() if v}}
    try:
        model = mm.model_from_str(text)
    except TextXSemanticError as e:
        if ok:
            return out.add("unexpected_failure", f"{text!r} sched={out.sample['schedule']}: {e}")
        if "Unresolvable cross references" not in str(e):
            return out.add("no_progress/wrong_error", f"{text!r}: {e}")
        return out
    if bad_pos:
        return out.add("reference_position", f"{text!r}: provider was offered positions {bad_pos} (expected {offs})")
    if not ok:
        return out.add("no_progress/load_succeeded", f"{text!r} sched={out.sample['schedule']}")
    defs = {d.name: d for d in model.defs}
    for i, l in enumerate(case["lists"]):
        obj = model.lists[i]
        for attr, targets in (("refs", l["refs"]), ("more", l["more"])):
            got = getattr(obj, attr)
            exp = [defs[DEFS[t]] for t in targets]
            if len(got) != len(exp):
                return out.add("list_length", f"{text!r} {attr}: got {[g.name for g in got]}")
            if any(g is not e for g, e in zip(got, exp)):
                single = sum(1 for k in (l["ks"] if attr == "refs" else l["ks2"]) if k > 0) == 1
                return out.add("order/" + ("one_postponed" if single else "several_postponed"),
                               f"{text!r} sched={out.sample['schedule']} {attr}: expected "
                               f"{[e.name for e in exp]} got {[g.name for g in got]}")
        if l["first"] is not None and obj.first is not defs[DEFS[l["first"][0]]]:
            return out.add("single_ref_target", f"{text!r}")
    return out
