"""C10 - the FQN scope provider resolves only genuine qualified names.

Domain : generated trees of nested packages and classes (names from a pool of 4, unique among all
         containment children of one object, repeated at different depths), packages carrying
         non-containment references to other packages (single 'uses' and list 'imports'), and
         references to classes / packages placed at every depth with dotted names of length <= 3
         over the names present (plus a dangling name).
Oracle : reference FQN semantics on the generator's tree: starting at the referencing object, then
         each ancestor outward, follow the name parts through *containment children only*; the first
         start from which the chain exists and ends in an object of the target type wins; none ->
         'Unknown object'.  The first failing reference in textual order decides the error.
"""
from hypothesis import strategies as st

from vt.gen.writer import GAPS_COMMENT, Writer, layouts
from vt.harness import Outcome

ID = "C10"
LEVEL = "exploration"
CASES = {"quick": 5000, "thorough": 250000}
RULE = ("generated package trees (depth<=3, <=4 children per package, names from {a,b,c,d} unique among siblings), "
        "0-2 non-containment package references per package, 1-4 class/package references with dotted names of 1-3 parts "
        "over the pool. non-trivial: the dotted name is absent as a containment chain but present through a parent link or "
        "a reference attribute, or present from two different starts, or the chain ends in a non-conforming object; "
        "distinct by canonical JSON")
ASSUMPTIONS = [
    "sibling names are unique among all containment children of one object (the property's precondition)",
    "when several references fail, the first one in textual order is reported",
]
LEVEL_TEXT = ("Generated models compared with an independent FQN resolver evaluated on the generator's own containment tree "
              "(identity of targets, 'Unknown object' otherwise).")
LEVEL_NOTE = "Trusts the reference FQN semantics (containment-only chains, nearest start first) written from the property text."
TECHNIQUE = "property-based testing (Hypothesis) against a reference resolver on the generated model tree"
DESIGN_REF = "DESIGN.md section 4, C10"

GRAMMAR = r"""
Model: packages*=Package;
Package: 'package' name=ID ('uses' uses=[Package:FQN])? ('imports' imports+=[Package:FQN][','])?
         '{' (packages+=Package | classes+=Cls | refs+=Ref | prefs+=PRef)* '}';
Cls: 'class' name=ID;
Ref: 'ref' target=[Cls:FQN];
PRef: 'pref' target=[Package:FQN];
FQN: ID('.'ID)*;
Comment: /\/\/.*?$/ | /\/\*(.|\n)*?\*\//;
"""
NAMES = ["a", "b", "c", "d"]


def dotted():
    return st.lists(st.sampled_from(NAMES + ["a", "b", "zz"]), min_size=1, max_size=3)


def package(depth):
    child = st.one_of(
        st.fixed_dictionaries({"k": st.just("Cls")}),
        st.fixed_dictionaries({"k": st.just("Ref"), "name": dotted()}),
        st.fixed_dictionaries({"k": st.just("PRef"), "name": dotted()}),
    )
    if depth > 0:
        child = st.one_of(child, child, package(depth - 1), package(depth - 1))
    return st.fixed_dictionaries({
        "k": st.just("Package"),
        "uses": st.one_of(st.none(), st.none(), dotted()),
        "imports": st.lists(dotted(), max_size=2),
        "children": st.lists(child, max_size=5),
        "perm": st.permutations(NAMES),
    })


def strategy(tier):
    return st.fixed_dictionaries({"packages": st.lists(package(2), min_size=1, max_size=3),
                                  "perm": st.permutations(NAMES), "layout": layouts()})


class Node:
    def __init__(self, kind, name, parent):
        self.kind, self.name, self.parent = kind, name, parent
        self.children = []  # named containment children (packages and classes), in document order
        self.path = None


def build(case):
    """assign sibling-unique names, write the text, return (text, root node, refs)"""
    w = Writer(case["layout"], GAPS_COMMENT)
    root = Node("Model", None, None)
    refs = []  # (holder Node-or-pseudo, target kind, parts, attr, idx, offset, container node)

    def go(e, parent, names):
        if not names:
            return  # no free sibling name left: drop the element (names must be unique)
        if e["k"] in ("Ref", "PRef"):
            w.tok("ref" if e["k"] == "Ref" else "pref")
            off = w.tok(".".join(e["name"]))
            refs.append((None, "Cls" if e["k"] == "Ref" else "Package", e["name"], "target", None, off, parent))
            return
        name = names.pop(0)
        n = Node(e["k"], name, parent)
        parent.children.append(n)
        if e["k"] == "Cls":
            w.tok("class")
            w.tok(name)
            return
        w.tok("package")
        w.tok(name)
        if e["uses"] is not None:
            w.tok("uses")
            off = w.tok(".".join(e["uses"]))
            refs.append((n, "Package", e["uses"], "uses", None, off, n))
        if e["imports"]:
            w.tok("imports")
            for j, d in enumerate(e["imports"]):
                if j:
                    w.tok(",")
                off = w.tok(".".join(d))
                refs.append((n, "Package", d, "imports", j, off, n))
        w.tok("{")
        free = list(e["perm"])
        for c in e["children"]:
            go(c, n, free)
        w.tok("}")

    free = list(case["perm"])
    for p in case["packages"]:
        go(p, root, free)
    return w.text(), root, refs


def resolve(start_chain, parts, kind):
    """start_chain: list of nodes to start from, nearest first.  returns (node, index of start) or (None, None)"""
    for si, start in enumerate(start_chain):
        cur = start
        ok = True
        for part in parts:
            nxt = next((c for c in cur.children if c.name == part), None)
            if nxt is None:
                ok = False
                break
            cur = nxt
        if ok and cur is not start and cur.kind == kind:
            return cur, si
    return None, None


def spurious_possible(start_chain, parts, refs_of):
    """would the name resolve if parent links / reference attributes were followed as well? (classification only)"""
    for start in start_chain:
        frontier = [start]
        for part in parts:
            nxt = []
            for cur in frontier:
                cand = list(cur.children)
                if cur.parent is not None and cur.parent.name is not None:
                    cand.append(cur.parent)
                cand += refs_of.get(id(cur), [])
                nxt += [c for c in cand if c.name == part]
            frontier = nxt
        if frontier:
            return True
    return False


def evaluate(case):
    from textx import metamodel_from_str
    from textx.exceptions import TextXSemanticError
    from textx.scoping.providers import FQN

    out = Outcome()
    text, root, refs = build(case)
    expected = []
    refs_of = {}
    nt = False
    for holder, kind, parts, attr, idx, off, cont in refs:
        chain = []
        n = cont if holder is None else holder
        # the referencing object itself comes first (a Ref/PRef object has no children), then its ancestors
        if holder is None:
            chain.append(Node("Ref", None, cont))
        while n is not None:
            chain.append(n)
            n = n.parent
        tgt, si = resolve(chain, parts, kind)
        expected.append(tgt)
        if tgt is None:
            if spurious_possible(chain, parts, refs_of):
                nt = True
                out.cls("absent_but_reachable_through_parent_or_reference")
        else:
            other = resolve(chain[si + 1:], parts, kind)[0]
            if other is not None and other is not tgt:
                nt = True
                out.cls("present_from_two_starts")
            if holder is not None:
                refs_of.setdefault(id(holder), []).append(tgt)
    first_err = next((i for i, e in enumerate(expected) if e is None), None)
    out.nontrivial = nt
    out.cls("expect_error" if first_err is not None else "expect_ok", f"refs={min(len(refs), 6)}")
    out.sample = {"text": text}
    mm = metamodel_from_str(GRAMMAR)
    mm.register_scope_providers({"*.*": FQN()})
    try:
        m = mm.model_from_str(text)
    except TextXSemanticError as e:
        if first_err is None:
            return out.add("rejected_resolvable_name", f"{text!r}: {e}")
        parts = ".".join(refs[first_err][2])
        if e.err_type != "Unknown object" or f'"{parts}"' not in e.message:
            # an earlier (resolvable) reference was rejected, or another error
            return out.add("wrong_error", f"{text!r}: expected Unknown object {parts!r}, got {e.message!r}")
        return out
    if first_err is not None:
        parts = ".".join(refs[first_err][2])
        h, kind, _, attr, idx, off, cont = refs[first_err]
        got = None
        return out.add("spurious_resolution/" + ("package_ref" if kind == "Package" else "class_ref"),
                       f"{text!r}: {parts!r} (to {kind}, offset {off}) has no containment chain but the model loaded")

    # map generator nodes to model objects by containment path
    def obj_of(node):
        path = []
        n = node
        while n.parent is not None:
            path.append(n)
            n = n.parent
        o = m
        for n in reversed(path):
            lst = o.packages if n.kind == "Package" else o.classes
            o = next(x for x in lst if x.name == n.name)
        return o

    counters = {}
    for (holder, kind, parts, attr, idx, off, cont), exp in zip(refs, expected):
        if holder is None:
            co = obj_of(cont)
            lst = co.refs if kind == "Cls" else co.prefs
            i = counters.get((id(cont), kind), 0)
            counters[(id(cont), kind)] = i + 1
            got = lst[i].target
        else:
            ho = obj_of(holder)
            got = ho.uses if attr == "uses" else ho.imports[idx]
        if got is not obj_of(exp):
            return out.add("wrong_target", f"{text!r}: {'.'.join(parts)!r} at {off} resolved to {got!r}, expected path "
                           f"{exp.name} in {exp.parent.name}")
    return out
