"""C17 - multi-file models load each file once and share element identity.

Domain : generated directories of model files (vt.gen.files: random import digraphs with cycles,
         diamonds, self imports, glob patterns, a search-path directory) and cross-file references,
         for PlainNameImportURI, FQNImportURI, RREL '+m:' in the grammar and PlainNameGlobalRepo;
         with / without a global repository on the metamodel; with / without builtin models;
         histories of 1-3 loads of different roots of the same directory.
Oracle : a harness wrapper around builtins.open counts opens per file: every file of the import
         closure is opened exactly once per load (not at all when a global repository already holds
         it); every cross-file reference is (identity) the element found by walking
         all_models[abspath(file)]; every file of the closure is in the root's all_models exactly
         once; lookup order: the model itself, then its loaded models in import order, then
         builtin_models; with a global repository a repeated load returns the identical model.
"""
import builtins
import os
import shutil
import tempfile

from hypothesis import strategies as st

from vt.gen import files as F
from vt.harness import Outcome

ID = "C17"
LEVEL = "exploration"
CASES = {"quick": 1500, "thorough": 80000}
PROVIDERS = ["plain_importuri", "fqn_importuri", "rrel_m", "plain_globalrepo"]
RULE = ("generated directories (1-5 files, random import edges, glob group or search-path directory in 20% each) x provider "
        "x global repository on/off x builtin models on/off x 1-3 loads of generated roots; plus a 'shared' name defined in "
        "generated places (root, imported files, builtin) to observe the lookup order. non-trivial: the graph has a cycle or a "
        "diamond and >=2 cross-file references; distinct by canonical JSON")
ASSUMPTIONS = [
    "ImportURI visibility is that of direct imports (references are generated to the file itself or to directly imported files)",
    "loaded models are searched in the order of the import statements",
    "for GlobalRepo providers every registered file is visible and loaded with every root",
]
LEVEL_TEXT = ("Generated file graphs, providers and load histories; file opens counted by a harness wrapper, identities "
              "compared with the repository contents, lookup order with a reference rule.")
LEVEL_NOTE = "Trusts the open() wrapper (restricted to the case's directory) and the generator's reference table."
TECHNIQUE = "property-based testing (Hypothesis) over generated file graphs with an I/O-counting harness and identity oracle"
DESIGN_REF = "DESIGN.md sections 3.6, 4 C17"


@st.composite
def cases(draw):
    prov = draw(st.sampled_from(PROVIDERS))
    g = draw(F.file_graphs(max_files=5, allow_glob=prov != "plain_globalrepo", allow_lib=prov in ("plain_importuri", "fqn_importuri")))
    n = g["n"]
    shared = sorted(draw(st.lists(st.integers(-1, n - 1), max_size=3, unique=True)))  # -1 = builtin model
    return {"graph": g, "provider": prov, "global_repo": draw(st.booleans()),
            "builtin": draw(st.booleans()), "shared_in": shared, "shared_user": draw(st.integers(0, n - 1)),
            "loads": draw(st.lists(st.integers(0, n - 1), min_size=1, max_size=3))}


def strategy(tier):
    return cases()


def make_mm(case, root, counts=None):
    from textx import metamodel_from_str
    from textx.scoping import ModelRepository
    from textx.scoping import providers as P

    prov = case["provider"]
    fqn = prov == "fqn_importuri"
    suffix = ":FQN" if fqn else (":ID|+m:defs" if prov == "rrel_m" else "")
    kw = {}
    if case["global_repo"]:
        kw["global_repository"] = True
    if case["builtin"] or -1 in case["shared_in"]:
        helper = metamodel_from_str(F.grammar("", False))
        repo = ModelRepository()
        repo.add_model(helper.model_from_str("def onlybuiltin\n" + ("def shared\n" if -1 in case["shared_in"] else "")))
        kw["builtin_models"] = repo
    mm = metamodel_from_str(F.grammar(suffix, fqn), **kw)
    sp = [root, os.path.join(root, "lib")] if case["graph"]["lib"] else None
    if prov == "plain_importuri":
        mm.register_scope_providers({"*.*": P.PlainNameImportURI(search_path=sp)})
    elif prov == "fqn_importuri":
        mm.register_scope_providers({"*.*": P.FQNImportURI(search_path=sp)})
    elif prov == "plain_globalrepo":
        mm.register_scope_providers({"*.*": P.PlainNameGlobalRepo(os.path.join(root, "*.m"))})
    return mm


def evaluate(case):
    from textx.exceptions import TextXError
    from textx.scoping import get_included_models

    out = Outcome()
    g = case["graph"]
    tmp = os.path.realpath(tempfile.mkdtemp(prefix="vt-c17-"))
    counts = {}
    real_open = builtins.open

    def counting_open(file, *a, **k):
        try:
            p = os.path.realpath(file) if isinstance(file, (str, bytes, os.PathLike)) else None
        except Exception:  # noqa: BLE001
            p = None
        if p and isinstance(p, str) and p.startswith(tmp + os.sep):
            counts[p] = counts.get(p, 0) + 1
        return real_open(file, *a, **k)

    try:
        extra = {}
        for i in case["shared_in"]:
            if i >= 0:
                extra[i] = ("def shared\n", "")
        su = case["shared_user"]
        visible = [su] + F.imports_of(g, su)
        if case["provider"] == "plain_globalrepo":
            visible = list(range(g["n"]))
        shared_places = [i for i in visible if i in case["shared_in"]]
        expect_shared = None
        if case["provider"] != "plain_globalrepo":
            if su in case["shared_in"]:
                expect_shared = ("file", su)
            elif shared_places:
                expect_shared = ("file", shared_places[0])
                if shared_places[0] in g["ggroup"]:
                    # files matched by one glob pattern are imported in directory order, which is not defined:
                    # any of the group's files that define the name may be the first
                    expect_shared = ("file", shared_places[0], [i for i in shared_places if i in g["ggroup"]])
            elif -1 in case["shared_in"]:
                expect_shared = ("builtin",)
            if expect_shared is not None and not (len(shared_places) >= 2 and case["provider"] == "fqn_importuri" and False):
                extra[su] = (extra.get(su, ("", ""))[0], "use ushared -> shared\n")
            else:
                expect_shared = None
        F.write(g, tmp, extra=extra)
        mm = make_mm(case, tmp)
        feats = F.features(g, case["loads"][0])
        cross = sum(1 for f, t, d in g["uses"] if f != t)
        out.cls("provider:" + case["provider"], "global_repo" if case["global_repo"] else "local_repo")
        for f in sorted(feats):
            out.cls("graph:" + f)
        out.nontrivial = bool(feats & {"cycle", "diamond"}) and cross >= 2
        out.sample = {"files": F.texts(g, extra=extra), "provider": case["provider"], "global_repo": case["global_repo"],
                      "loads": case["loads"]}
        ctx = f"case={case}"
        loaded_before = set()
        prev_models = {}
        builtins.open = counting_open
        for li, r in enumerate(case["loads"]):
            counts.clear()
            rootpath = os.path.realpath(F.fpath(g, tmp, r))
            try:
                model = mm.model_from_file(rootpath)
            except TextXError as e:
                out.add("load_failed/" + case["provider"], ctx + f": load {li} of file {r}: {e}")
                break
            if case["provider"] == "plain_globalrepo":
                cl = sorted(set(F.closure(g, r)) | {i for i in range(g["n"]) if i not in g["lib"]})
            elif case["provider"] == "rrel_m":
                # with '+m:' the imports of a file are loaded by the provider of its references: a file without any
                # reference does not load its imports
                has_use = {i: any(f == i for f, _, _ in g["uses"]) or (i == su and expect_shared is not None)
                           for i in range(g["n"])}
                cl, todo = [], [r]
                while todo:
                    x = todo.pop(0)
                    if x in cl:
                        continue
                    cl.append(x)
                    if has_use[x]:
                        todo += F.imports_of(g, x)
            else:
                cl = F.closure(g, r)
            exp_paths = {os.path.realpath(F.fpath(g, tmp, i)): i for i in cl}
            # file opens
            for p, i in exp_paths.items():
                want = 0 if (case["global_repo"] and p in loaded_before) else 1
                got = counts.get(p, 0)
                if got != want:
                    kind = "opened_twice" if got > want else "not_opened"
                    out.add(f"file_opens/{kind}", ctx + f": load {li} (root file {r}): file {i} opened {got} times, expected {want}")
            for p in counts:
                if p not in exp_paths:
                    out.add("file_opens/outside_closure", ctx + f": load {li}: {os.path.basename(p)} was opened")
            # repository contents
            allm = {}
            for m in get_included_models(model):
                fn = os.path.realpath(m._tx_filename) if m._tx_filename else None
                if fn in allm:
                    out.add("repository/file_twice", ctx + f": {fn}")
                allm[fn] = m
            for p, i in exp_paths.items():
                if p not in allm:
                    out.add("repository/file_missing", ctx + f": load {li}: file {i} not in all_models")
            if case["global_repo"]:
                for p, m in allm.items():
                    if p in prev_models and prev_models[p] is not m:
                        out.add("global_repo/model_reloaded", ctx + f": load {li}: {os.path.basename(p or '?')} is a new object")
                prev_models.update(allm)
                loaded_before |= set(exp_paths)
                if rootpath in prev_models and prev_models[rootpath] is not model:
                    out.add("global_repo/root_not_cached", ctx + f": load {li}")
            # identity of cross-file references
            for p, i in exp_paths.items():
                m = allm.get(p)
                if m is None:
                    continue
                k = 0
                for f, tf, di in g["uses"]:
                    if f != i:
                        continue
                    use = m.uses[k]
                    k += 1
                    tm = allm.get(os.path.realpath(F.fpath(g, tmp, tf)))
                    if tm is None:
                        continue
                    if use.ref is not tm.defs[di]:
                        out.add("identity/reference_not_the_single_instance",
                                ctx + f": load {li}: {use.name} in file {i} -> d{tf}_{di} is another object ({use.ref!r})")
                if i == su and expect_shared is not None:
                    use = m.uses[k]
                    also = []
                    if expect_shared[0] == "file":
                        tm = allm.get(os.path.realpath(F.fpath(g, tmp, expect_shared[1])))
                        want = [d for d in tm.defs if d.name == "shared"][0] if tm else None
                        for j in (expect_shared[2] if len(expect_shared) > 2 else []):
                            tj = allm.get(os.path.realpath(F.fpath(g, tmp, j)))
                            also += [d for d in tj.defs if d.name == "shared"] if tj else []
                    else:
                        want = [d for d in list(mm.builtin_models)[0].defs if d.name == "shared"][0]
                    if want is not None and use.ref is not want and not any(use.ref is d for d in also):
                        out.add("lookup_order/" + expect_shared[0], ctx + f": 'shared' resolved to an object of "
                                f"{getattr(getattr(use.ref, 'parent', None), '_tx_filename', '?')}, expected {expect_shared}")
        return out
    finally:
        builtins.open = real_open
        shutil.rmtree(tmp, ignore_errors=True)
