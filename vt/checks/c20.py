"""C20 - ignore_case makes grammar literals case-insensitive.

Domain : generated grammars with keyword literals (ASCII and non-ASCII bicameral letters), word
         separators and regex literals, autokwd on/off, ignore_case=True; accepted inputs x case
         variations of exactly the characters that the reference interpreter's token trace attributes
         to string / regex literals (not to base types such as BOOL or ID).
Oracle : metamorphic - every variant is accepted and its model equals the original's after the same
         variation of the values that stem from regex-literal matches (values of string matches keep
         the grammar's spelling, ID and regex values the spelling of the input); and differential -
         textX's outcome on the original and on every variant equals the reference interpreter's.
"""
from hypothesis import strategies as st

from vt import dump as D
from vt.checks import c01
from vt.gen import grammar as G
from vt.gen import inputs as I
from vt.harness import Outcome
from vt.ref import peg

ID = "C20"
LEVEL = "exploration"
CASES = {"quick": 4000, "thorough": 250000}
UNI = {"aa": "äa", "kw": "кw", "end": "énd", "bb": "bB", "begin": "BEGIN", "cc": "CC", "_k": "_K"}
RULE = ("generated grammars (keywords partly replaced by non-ASCII / mixed-case spellings: äa, кw, énd, bB) with "
        "ignore_case=True, autokwd on/off x 5 derived inputs x 3 case variations of the literal-matched characters; "
        "non-trivial: an accepted input in which >=2 literal tokens change, one of them a separator or a regex literal; "
        "a case-sensitive sibling metamodel of the same grammar is built first; literals include ones that need or are spelled with escapes; distinct by canonical JSON")
ASSUMPTIONS = c01.ASSUMPTIONS[:3] + [
    "built-in base types (ID, BOOL, ...) are not affected by ignore_case; only characters matched by grammar literals are varied",
    "a string match yields the grammar's spelling; under autokwd a keyword-like literal yields the input's spelling (docs note N2)",
    "letters are simple bicameral letters whose upper/lower forms are single characters",
]
LEVEL_TEXT = ("Metamorphic (case variation of literal-matched characters) plus differential testing against the reference "
              "interpreter with case-insensitive literals, on generated grammars and inputs.")
LEVEL_NOTE = "Trusts the reference interpreter's token trace for locating literal-matched characters."
TECHNIQUE = "property-based metamorphic + differential testing (Hypothesis)"
DESIGN_REF = "DESIGN.md section 4 C20"


def remap(e):
    if isinstance(e, list):
        if len(e) == 2 and e[0] == "str" and e[1] in UNI:
            return ["str", UNI[e[1]]]
        return [remap(x) for x in e]
    return e


@st.composite
def cases(draw):
    g = draw(G.grammars(max_rules=4, modifiers=False, eolterm=False))
    if draw(st.booleans()):
        g = {"rules": [dict(r, body=remap(r["body"])) for r in g["rules"]], "comment": g["comment"]}
    cfg = {"skipws": True, "ws": None, "auto_init_attributes": True, "use_regexp_group": draw(st.booleans()),
           "ignore_case": True, "autokwd": draw(st.booleans())}
    texts = draw(I.inputs_for(g, cfg, n=5, mutate=False))
    masks = draw(st.lists(st.integers(1, 2 ** 30 - 1), min_size=3, max_size=3))
    return {"g": g, "cfg": cfg, "inputs": texts, "masks": masks}


def strategy(tier):
    return cases()


def vary(text, spans, mask):
    chars = list(text)
    j = 0
    changed = 0
    for (s, e) in spans:
        hit = False
        for i in range(s, e):
            c = chars[i]
            if c.lower() != c.upper() and len(c.swapcase()) == 1:
                if (mask >> (j % 30)) & 1:
                    chars[i] = c.swapcase()
                    hit = True
                j += 1
        changed += hit
    return "".join(chars), changed


def run_textx(mm, text):
    from textx.exceptions import TextXSemanticError, TextXSyntaxError

    try:
        return ("ok", D.dump_textx(mm.model_from_str(text)))
    except TextXSyntaxError as e:
        return ("syntax", str(e))
    except TextXSemanticError as e:
        return ("semantic", str(e))


def evaluate(case):
    from textx.exceptions import TextXError

    out = Outcome()
    g, cfg = case["g"], case["cfg"]
    gtext = G.to_text(g)
    try:
        # a case-sensitive sibling of the same grammar is built first: nothing it compiled (keyword patterns,
        # literals) may be shared with the case-insensitive metamodel
        c01.make_metamodel(g, dict(cfg, ignore_case=False))
        mm = c01.make_metamodel(g, cfg)
    except TextXError as e:
        return out.add("grammar_rejected", f"{gtext!r}: {e}")
    out.cls("autokwd=" + str(cfg["autokwd"]))
    out.sample = {"grammar": gtext, "cfg": cfg, "inputs": case["inputs"][:2]}
    nt = False
    for text in case["inputs"]:
        res, it = peg.parse(g, cfg, text)
        if res[0] != "ok" or res[1] is None:
            continue
        terms = peg.terminals(res[2])
        lit_spans = [(t.start, t.end) for t in terms if t.is_str or (t.base is None and t.m is not None)]
        special = any(t.sep or (t.base is None and t.m is not None) for t in terms)
        base = run_textx(mm, text)
        ctx0 = f"grammar={gtext!r} cfg={cfg} input={text!r}"
        if base[0] != "ok":
            out.add("original/rejected", ctx0 + f": {base[1]}")
            continue
        df = c01.ref_diff(g, cfg, text, base[1], res[1])
        if df:
            if df[0] == "known":
                out.cls("excluded_known_quirk:" + df[1])
            else:
                out.add("original/model_" + df[1], ctx0 + " " + df[2])
            continue
        for mask in case["masks"]:
            vtext, changed = vary(text, lit_spans, mask)
            if vtext == text:
                continue
            ctx = f"grammar={gtext!r} cfg={cfg} input={text!r} variant={vtext!r}"
            got = run_textx(mm, vtext)
            if got[0] != "ok":
                out.add("variant/rejected", ctx + f": {got[1]}")
                continue
            rres, _ = peg.parse(g, cfg, vtext)
            if rres[0] != "ok":
                # the reference itself is not invariant: harness-side doubt, counted, not a verdict
                out.cls("reference_not_invariant")
                continue
            df = c01.ref_diff(g, cfg, vtext, got[1], rres[1])
            if df and df[0] == "new":
                out.add("variant/model_" + df[1], ctx + " " + df[2])
            if changed >= 2 and special:
                nt = True
    out.nontrivial = nt
    return out
