"""C24 - the self-hosted textX grammar agrees with the grammar compiler.

Domain : grammar texts over the full surface syntax, generated from a syntax-level description
         (semantic validity is irrelevant): import / reference statements, rule modifiers, every
         operator, repetition modifiers incl. mixed separator + eolterm, assignments, link references
         with match rule and RREL (all flags, fixed names, every RREL operator), regular expressions
         containing escaped slashes and backslashes, comments between tokens, identifiers starting
         with a digit, qualified rule references; plus token-level mutations.
Oracle : differential on the *syntactic* verdict: metamodel_for_language('textx')
         .grammar_model_from_str(t) raises TextXSyntaxError <=> the grammar compiler's parser (the
         Arpeggio parser of textx.lang run alone on t, so that semantic errors of the compiler do not
         count) rejects t; any other exception on either side is a discrepancy.  On agreement-accept:
         the grammar model has the same rule names in the same order as the compiler's parse tree.
"""
import re

from hypothesis import strategies as st

from vt.gen import grammar as G
from vt.gen import rrel as GR
from vt.harness import Outcome, exc_bucket

ID = "C24"
LEVEL = "exploration"
CASES = {"quick": 3000, "thorough": 300000}
RULE = ("(a) syntax-level generated grammar texts (1-4 rules built from a pool of constructs of every kind), (b) printed "
        "grammars of vt.gen.grammar, each with 0-2 token mutations. non-trivial: the text contains a link reference, a "
        "repetition modifier or a regular expression with an escaped slash/backslash; distinct by canonical JSON")
ASSUMPTIONS = [
    "only the syntactic verdict is compared (the compiler's semantic checks are not part of the self-hosted grammar)",
    "the compiler's parser is the Arpeggio parser built from textx.lang.textx_model with textx.lang.comment",
]
LEVEL_TEXT = ("Differential testing of two implementations of the same syntax (textx.tx vs textx.lang) on generated and "
              "mutated grammar texts, bucketed by the construct that separates them.")
LEVEL_NOTE = "Trusts neither side: any disagreement is reported; constructs are named by the generator's own tags."
TECHNIQUE = "property-based differential testing (Hypothesis) of two parsers for the same language"
DESIGN_REF = "DESIGN.md section 4 C24"

# construct pool: (tag, text); every snippet is a complete rule body element
ATOMS = [
    ("ref_keyword_prefix", "importer"), ("ref_keyword_prefix", "assoc"), ("ref_keyword_prefix", "eoltermx"),
    ("str", "'kw'"), ("str_dq", '"k\\"w"'), ("re", "/[a-z]+/"), ("re_escaped_slash", "/a\\/b/"), ("re_backslash", "/\\\\/"),
    ("re_backslash_d", "/\\d+\\.\\d*/"), ("ref", "Other"), ("base", "INT"), ("ref_digit_ident", "1st"),
    ("ref_qualified", "pkg.Other"), ("group", "('a' | Other 'b')"), ("group_nested", "(('a')? Other)"),
]
SUFFIX = [("", ""), ("opt", "?"), ("star", "*"), ("plus", "+"), ("unordered", "#"), ("suppress", "-"), ("star_sep", "*[',']"),
          ("plus_eolterm", "+[eolterm]"), ("star_sep_eolterm", "*[',' eolterm]"), ("plus_eolterm_sep", "+[eolterm ',']"),
          ("star_re_sep", "*[/;|,/]"), ("opt_suppress", "?-"), ("plus_suppress", "+-"),
          ("plus_eolterm_other_case", "+[Eolterm]"), ("star_eolterm_other_case", "*[',' EOLTERM]")]
PREFIX = [("", ""), ("", ""), ("not", "!"), ("and", "&")]
RHS = [("rhs_str", "'x'"), ("rhs_re", "/\\w+/"), ("rhs_ref", "Other"), ("rhs_base", "STRING"), ("objref", "[Other]"),
       ("objref_rule", "[Other:ID]"), ("objref_bar", "[Other|ID]"), ("objref_qualified", "[pkg.Other:FQN]"),
       ("objref_rrel", "[Other:FQN|^packages*.classes]"), ("objref_rrel_m", "[Other:FQN|+m:a.b]"),
       ("objref_rrel_p", "[Other:ID|+p:..a.(b,~c)*]"), ("objref_rrel_pm", "[Other:ID|+pm:parent(X).a]"),
       ("objref_rrel_fixed", "[Other:ID|'fix'~a.b]"), ("objref_rrel_fixed_dq", '[Other:ID|"it\'s"~a]'),
       ("objref_rrel_dots", "[Other:ID|...]"), ("objref_rrel_caret", "[Other:ID|^]"),
       ("rhs_ref_qualified", "pkg.Other"), ("rhs_base_qualified", "ID.x"), ("rhs_base_prefix", "INTx"),
       ("objref_rrel_digit_ident", "[Other:ID|1a.b]"), ("objref_rrel_parent_digit", "[Other:ID|parent(1B).a]"),
       ("objref_rrel_fixed_no_tilde", "[Other:ID|'x' a.b]"), ("objref_rrel_tilde_only", "[Other:ID|~a.~b]"),
       ("objref_rrel_parent_other_case", "[Other:ID|Parent(X).a]"), ("objref_rrel_generated", None)]
RREL_FLAGS = ["", "", "+m:", "+p:", "+mp:", "+pm:", "+mm:", "+pp:", "+mpm:", "+ppm:", "+:", "+x:", "+m", "+ m:"]
RREL_NAMES = ["a", "b", "parent", "p1", "_x", "élan", "1a", "parents"]
RREL_TYPES = ["A", "Pkg", "1B", "_T"]
COMMENT_BODIES = ["", " ", "c", "*", "**", " doc *", "/", "/*", "//", "* /", "a\nb", "*\n*", "'", "/x/", "\\"]
ASG_OPS = ["=", "+=", "*=", "?="]
ASG_MODS = [("", ""), ("", ""), ("asg_sep", "[',']"), ("asg_eolterm", "[eolterm]"), ("asg_sep_eolterm", "[';' eolterm]")]
PARAMS = [("", ""), ("", ""), ("param_noskipws", "[noskipws]"), ("param_ws", "[ws=' \\t']"), ("param_two", "[skipws, ws='\\n']"),
          ("param_split", "[split='/']")]
HEADERS = [("import_other_case", "Import other.grammar\n"), ("reference_as_other_case", "reference lang2 AS l2\n"),
           ("", ""), ("", ""), ("", ""), ("import", "import other.grammar\n"), ("reference", "reference some-lang as sl\n"),
           ("reference_plain", "reference lang2\n")]
COMMENTS = ["", "", "", " // c\n", " /* c */ "]
MUT_POOL = ["Eolterm", "EOLTERM", "Import", "AS", "Parent", "REFERENCE",
            "#", "-", "?", "*", "+", "|", "(", ")", "[", "]", ";", ":", "=", "+=", "!", "&", ",", "eolterm", "'s'", "/r/", "X", "1x",
            "~", "^", ".", "+m:", "+p:", "parent", "//"]
TOKEN = re.compile(r"""'(?:\\.|[^'])*'|"(?:\\.|[^"])*"|/(?:\\/|[^/\n])+/|\+[mp]+:|\w+|\+=|\*=|\?=|\S""")


@st.composite
def elements(draw):
    tags = []
    if draw(st.integers(0, 9)) < 4:
        attr = draw(st.sampled_from(["a", "b2", "name", "2x"]))
        if attr == "2x":
            tags.append("attr_digit_ident")
        op = draw(st.sampled_from(ASG_OPS))
        rt, rhs = draw(st.sampled_from(RHS))
        if rhs is None:
            ex = draw(GR.exprs(depth=2, names=RREL_NAMES, types=RREL_TYPES, flags=RREL_FLAGS))
            rhs = "[Other:ID|" + GR.to_text(ex, draw(st.sampled_from(["", "", " "]))) + "]"
            fl = ex["flags"]
            if fl not in ("", "+m:", "+p:", "+mp:", "+pm:"):
                tags.append("rrel_flags_unusual")
            if any(ch.isdigit() for ch in rhs.replace("p1", "")):
                tags.append("rrel_digit_ident")
        mt, mod = draw(st.sampled_from(ASG_MODS))
        tags += [rt] + ([mt] if mt else [])
        return tags, f"{attr}{op}{rhs}{mod}"
    pt, pre = draw(st.sampled_from(PREFIX))
    at, atom = draw(st.sampled_from(ATOMS))
    stag, suf = draw(st.sampled_from(SUFFIX))
    tags += [t for t in (pt, at, stag) if t]
    return tags, f"{pre}{atom}{suf}"


@st.composite
def outer_comments(draw, tags):
    """a comment where no regular-expression match is possible: before the first rule, between rules, after the last"""
    k = draw(st.integers(0, 9))
    if k < 6:
        return ""
    body = draw(st.sampled_from(COMMENT_BODIES))
    if k < 8:
        tags.append("outer_block_comment")
        return "/*" + body + "*/\n"
    tags.append("outer_line_comment")
    return "//" + body.replace("\n", " ") + "\n"


@st.composite
def syntax_texts(draw):
    tags = []
    ht, head = draw(st.sampled_from(HEADERS))
    if ht:
        tags.append(ht)
    text = draw(outer_comments(tags)) + head + draw(outer_comments(tags))
    for i in range(draw(st.integers(1, 4))):
        # names that start with a keyword of the grammar language (import, reference, as, eolterm, parent)
        name = draw(st.sampled_from(["Model", "Rule1", "X", "9lives", "importer", "referenced", "assoc", "eoltermx",
                                     "parents"])) + (str(i) if i else "")
        if name.startswith("9"):
            tags.append("rule_name_digit_ident")
        pt, params = draw(st.sampled_from(PARAMS))
        if pt:
            tags.append(pt)
        alts = []
        for _ in range(draw(st.integers(1, 3))):
            els = []
            for _ in range(draw(st.integers(1, 3))):
                t, e = draw(elements())
                tags += t
                els.append(e + draw(st.sampled_from(COMMENTS)))
            alts.append(" ".join(els))
        text += f"{name}{params}:{draw(st.sampled_from(COMMENTS))} " + " | ".join(alts) + " ;\n"
        text += draw(outer_comments(tags))
    return sorted(set(tags)), text


@st.composite
def cases(draw):
    if draw(st.integers(0, 9)) < 7:
        tags, text = draw(syntax_texts())
    else:
        tags, text = ["generated_semantic_grammar"], G.to_text(draw(G.grammars(max_rules=3)))
    nm = draw(st.sampled_from([0, 0, 0, 1, 2]))
    muts = [[draw(st.integers(0, 4)), draw(st.integers(0, 200)), draw(st.sampled_from(MUT_POOL))] for _ in range(nm)]
    return {"text": text, "tags": tags, "muts": muts}


def strategy(tier):
    return cases()


_LANG = None


def lang_parser():
    """the grammar compiler's own parser object: the one textX caches for all grammar texts of the process.  The first
    metamodel of the process is built here with ignore_case=True and autokwd=True - options of a *metamodel* must not
    leak into how grammar texts are parsed afterwards."""
    global _LANG
    if _LANG is None:
        from textx import lang, metamodel_from_str

        if False not in lang.textX_parsers:
            metamodel_from_str("Prime: 'x' name=ID;", ignore_case=True, autokwd=True)
        _LANG = lang.textX_parsers.get(False)
        if _LANG is None:  # textX no longer caches its grammar parser: build one the way the compiler documents it
            from arpeggio import ParserPython

            _LANG = ParserPython(lang.textx_model, comment_def=lang.comment, ignore_case=False, reduce_tree=False)
    return _LANG


def mutate(text, muts):
    if not muts:
        return text
    toks = TOKEN.findall(text)
    for op, idx, tok in muts:
        if not toks:
            toks = [tok]
            continue
        i = idx % len(toks)
        if op == 0:
            del toks[i]
        elif op == 1:
            toks.insert(i, toks[i])
        elif op == 2 and len(toks) > 1:
            j = (i + 1) % len(toks)
            toks[i], toks[j] = toks[j], toks[i]
        elif op == 3:
            toks[i] = tok
        else:
            toks.insert(i, tok)
    return " ".join(toks)


def evaluate(case):
    from arpeggio import NoMatch
    from textx import metamodel_for_language
    from textx.exceptions import TextXSyntaxError

    out = Outcome()
    text = mutate(case["text"], case["muts"])
    tags = case["tags"]
    out.sample = {"text": text, "tags": tags}
    for t in tags:
        out.cls("construct:" + t)
    out.nontrivial = any(t.startswith(("objref", "re_", "star_sep", "plus_eol", "asg_")) for t in tags)
    # compiler's parse step
    try:
        tree = lang_parser().parse(text)
        lang_ok = True
    except NoMatch as e:
        lang_ok, lang_err = False, e
    # self-hosted grammar
    try:
        gm = metamodel_for_language("textx").grammar_model_from_str(text)
        tx_ok = True
    except TextXSyntaxError as e:
        tx_ok, tx_err = False, e
    except RecursionError:
        return out.add("self_hosted_grammar/RecursionError", f"{text!r}")
    except Exception as e:  # noqa: BLE001
        return out.add(exc_bucket(e, "self_hosted_grammar_raises"), f"{text!r}: {type(e).__name__}: {e}")
    out.cls("both_accept" if (lang_ok and tx_ok) else ("both_reject" if not (lang_ok or tx_ok) else "disagree"))
    if lang_ok and not tx_ok:
        # name the construct: the single tag whose presence separates the two (generator tags of this text)
        mark = next((t for t in ("re_backslash", "objref_rule", "objref_bar", "objref_qualified", "objref_rrel_p", "objref_rrel_pm",
                                 "objref_rrel_fixed", "objref_rrel_fixed_dq", "star_sep_eolterm", "plus_eolterm_sep",
                                 "asg_sep_eolterm", "ref_digit_ident", "attr_digit_ident", "rule_name_digit_ident",
                                 "ref_qualified", "objref_rrel_dots", "objref_rrel_caret", "rhs_base_qualified", "rhs_base_prefix",
                                 "rhs_ref_qualified", "objref_rrel_tilde_only", "rrel_flags_unusual", "outer_block_comment",
                                 "outer_line_comment") if t in tags), None)
        if re.search(r"/(?:\\/|[^/\n])+/\*", text) or "\\\\/" in text:
            # recorded finding F-C24b: textx.tx matches a regex as three tokens ('/' body '/'), so comment skipping in
            # front of the closing slash swallows '/re/*' + a later '*/', and '/\\/' loses its closing slash to the body
            mark = "rematch_split_tokens"
        b = "compiler_accepts_textx_tx_rejects/" + (mark or ("mutated" if case["muts"] else "other"))
        return out.add(b, f"{text!r}: textx.tx: {tx_err}")
    if tx_ok and not lang_ok:
        mark = next((t for t in ("objref_rrel_fixed_no_tilde", "objref_rrel_digit_ident", "objref_rrel_parent_digit",
                                 "rrel_digit_ident", "rrel_flags_unusual", "outer_block_comment") if t in tags), None)
        b = "textx_tx_accepts_compiler_rejects/" + ("empty" if not text.strip() else ("mutated" if case["muts"] else (mark or "other")))
        return out.add(b, f"{text!r}: compiler: {lang_err}")
    if lang_ok and tx_ok:
        names = []

        def walk(n):
            if getattr(n, "rule_name", "") == "textx_rule":
                names.append(str(n[0]))
            elif hasattr(n, "__iter__") and not isinstance(n, str):
                for k in n:
                    walk(k)

        walk(tree)
        got = [r.name for r in gm.rules]
        if got != names:
            out.add("rule_names_differ", f"{text!r}: compiler {names}, grammar model {got}")
    return out
