"""C01 - compiled parser and model follow the grammar's PEG semantics.

Domain : generated grammars (vt.gen.grammar: common / abstract / match rules, all assignment
         operators, string / regex matches, base types, repetition modifiers, predicates,
         suppression, rule modifiers, Comment rule) x metamodel options (skipws, ws,
         auto_init_attributes, use_regexp_group) x inputs derived from the grammar and mutated.
Oracle : reference interpreter vt.ref.peg (no Arpeggio, no textX): (a) textX raises a syntax error
         <=> the reference rejects; (b) on acceptance the structural dumps are equal: classes,
         attribute values and their Python types, defaults, list order; every contained object has
         its container as parent and the root has none.
"""
from hypothesis import strategies as st

from vt import dump as D
from vt.gen import grammar as G
from vt.gen import inputs as I
from vt.harness import Outcome, exc_bucket
from vt.ref import engine, peg

ID = "C01"
LEVEL = "exploration"
CASES = {"quick": 6000, "thorough": 300000}
NINPUTS = 6
RULE = ("generated grammars (<=6 rules, nesting depth<=3) x configurations x 6 inputs each (derived from the grammar, 40% "
        "with 1-2 token mutations, generated layout incl. comments); one evaluation = one grammar with its inputs. "
        "non-trivial: the grammar uses >=3 distinct construct kinds and at least one accepted input yields a model with >=2 "
        "objects or a non-default attribute and at least one input is rejected or a second one accepted; distinct by "
        "canonical JSON of the case")
ASSUMPTIONS = [
    "whitespace mode (skipws, ws, eolterm) is dynamically scoped: a rule modifier holds for everything called from the rule",
    "comments are tried before every terminal (also under noskipws); the Comment rule itself is not commented",
    "a sub-expression that matches without a non-suppressed terminal yields no value: x=A assigns nothing, ?= stays False",
    "declared attribute type: the RHS rule if all assignments agree (STRING for string/regex matches, BOOL for ?=), else OBJECT; "
    "defaults per metamodel.md (base types '', 0, 0.0, False under auto_init_attributes, else None; ?= always False)",
    "an attribute is a list iff the rule body can assign it more than once (repetition, or two assignments on one path)",
    "in an unordered group with a separator, a member that could match without its separator makes the group fail",
    "by construction the generator avoids shapes of recorded engine (Arpeggio) findings: node-less alternatives / "
    "repetition bodies / group members, ws= rules together with eolterm, left recursion",
    "when the root rule produces no parse node only acceptance is compared",
]
LEVEL_TEXT = ("Differential testing against an independent reference interpreter of the documented PEG/model semantics on "
              "generated grammars, configurations and inputs (in effect translation validation per generated program); "
              "bounded sizes, no proof of absence.")
LEVEL_NOTE = "Trusts the reference interpreter (vt/ref/peg.py, written from the docs) and the grammar printer."
TECHNIQUE = "property-based differential testing (Hypothesis): generated grammars+inputs vs an independent reference PEG/model interpreter"
DESIGN_REF = "DESIGN.md sections 3.1-3.4, 4 C01, Appendix A"


@st.composite
def cases(draw):
    g = draw(G.grammars())
    cfg = draw(G.configs())
    texts = draw(I.inputs_for(g, cfg, n=NINPUTS))
    return {"g": g, "cfg": cfg, "inputs": texts}


def strategy(tier):
    return cases()


def make_metamodel(g, cfg, **extra):
    from textx import metamodel_from_str

    kw = dict(skipws=cfg.get("skipws", True), auto_init_attributes=cfg.get("auto_init_attributes", True),
              use_regexp_group=cfg.get("use_regexp_group", False))
    if cfg.get("ws") is not None:
        kw["ws"] = cfg["ws"]
    for k in ("ignore_case", "autokwd", "memoization"):
        if k in cfg:
            kw[k] = cfg[k]
    kw.update(extra)
    return metamodel_from_str(G.to_text(g), **kw)


# one compatibility switch of the reference per recorded finding: a disagreement that disappears when
# exactly one switch is on is attributed to that finding, everything else is new
QUIRKS = [(("abstract_first_nt",), "abstract_all_match_first_nonterminal"),
          (("trailing_sep_node",), "trailing_separator_node"),
          # both recorded findings in one parse (R1: R3 ',' | R2; R3: STRING+[','] on '"s" ,'); tried last
          (("abstract_first_nt", "trailing_sep_node"), "abstract_all_match_first_nonterminal+trailing_separator_node")]


def ref_diff(g, cfg, text, textx_dump, ref_model):
    """compare a textX dump with the reference model; returns None | ("known", label, detail) | ("new", kind, detail)"""
    df = D.diff(textx_dump, D.dump_ref(ref_model))
    if not df:
        return None
    detail = f"at {df[1]}: textX {df[2]} reference"
    for quirk, label in QUIRKS:
        res2, _ = peg.parse(g, cfg, text, quirks=quirk)
        if res2[0] == "ok" and D.diff(textx_dump, D.dump_ref(res2[1])) is None:
            return ("known", label, detail)
    return ("new", df[0], detail)


def engine_shape(g):
    """names the shape of a recorded *engine* (Arpeggio) finding present in the grammar, or 'plain'.
    The generator keeps these shapes out by construction; they reach the check through replay files only."""
    eol = comment = wsmod = False
    comment = bool(g.get("comment"))
    shapes = []
    for r in g["rules"]:
        if (r.get("mods") or {}).get("ws") is not None:
            wsmod = True
        for e in G.walk(r["body"]):
            if (e[0] in ("star", "plus") and e[3]) or (e[0] == "asg" and e[5]):
                eol = True
            if e[0] == "alt" and any(G.nodeless(x) for x in e[1]):
                shapes.append("nodeless_choice_alternative")
            if e[0] in ("star", "plus") and G.nodeless(e[1]):
                shapes.append("nodeless_repetition_body")
            if e[0] == "unord" and any(G.nodeless(m[1] if m[0] == "opt" else m) for m in e[1]):
                shapes.append("nodeless_group_member")
    if shapes:
        return shapes[0]
    if eol and wsmod:
        return "eolterm+ws_modifier"
    if eol and comment:
        return "eolterm+comment"
    return "plain"


def count_objs(d):
    if isinstance(d, list):
        return sum(count_objs(x) for x in d)
    if isinstance(d, dict) and "cls" in d:
        return 1 + sum(count_objs(v) for v in d["attrs"].values())
    return 0


def evaluate(case):
    from textx.exceptions import TextXError, TextXSemanticError, TextXSyntaxError

    out = Outcome()
    g, cfg = case["g"], case["cfg"]
    gtext = G.to_text(g)
    ks = G.constructs(g)
    for k in sorted(ks):
        out.cls("construct:" + k)
    out.cls(f"rules={len(g['rules'])}", "skipws=" + str(cfg["skipws"]), "auto_init=" + str(cfg["auto_init_attributes"]))
    kinds = peg.kinds(g)
    for k in set(kinds.values()):
        out.cls("rulekind:" + k)
    try:
        mm = make_metamodel(g, cfg)
    except TextXError as e:
        return out.add("grammar_rejected", f"{gtext!r} cfg={cfg}: {e}")
    accepted = rejected = 0
    rich = False
    shape = engine_shape(g)
    sfx = "" if shape == "plain" else "/engine:" + shape
    out.sample = {"grammar": gtext, "cfg": cfg, "inputs": case["inputs"][:3]}
    for text in case["inputs"]:
        res, it = peg.parse(g, cfg, text)
        if res[0] == "budget":
            out.cls("reference_budget")
            continue
        try:
            model = mm.model_from_str(text)
            got = ("ok", model)
        except TextXSyntaxError as e:
            got = ("syntax", e)
        except TextXSemanticError as e:
            got = ("semantic", e)
        ctx = f"grammar={gtext!r} cfg={cfg} input={text!r}"
        if g.get("comment") and {res[0], got[0]} == {"ok", "syntax"}:
            # causal attribution to the engine's comment cache (F-C01d): does textX agree with the reference once
            # nothing is remembered about comments?
            with engine.no_comment_cache():
                try:
                    mm.model_from_str(text)
                    again = "ok"
                except TextXSyntaxError:
                    again = "syntax"
                except TextXSemanticError:
                    again = "semantic"
            if again == res[0]:
                sfx_case = "/engine:comment_cache"
            else:
                sfx_case = sfx
        else:
            sfx_case = sfx
        if res[0] == "syntax":
            rejected += 1
            if got[0] == "ok":
                out.add("accept/textx_accepts_reference_rejects" + sfx_case, ctx + f" (reference fails at {res[1]})")
            elif got[0] == "semantic":
                out.add("semantic_error_on_rejected_input", ctx + f": {got[1]}")
            continue
        accepted += 1
        if got[0] == "syntax":
            out.add("accept/textx_rejects_reference_accepts" + sfx_case, ctx + f": {got[1]}")
            continue
        if got[0] == "semantic":
            et = getattr(got[1], "err_type", None)
            out.add("semantic_error_on_accepted_input/" + str(et).replace(" ", "_"), ctx + f": {got[1]}")
            continue
        ref_model = res[1]
        if ref_model is None:
            out.cls("root_without_node")
            continue
        problems = []
        a = D.dump_textx(got[1], problems=problems)
        b = D.dump_ref(ref_model)
        df = D.diff(a, b)
        if df:
            # attribution to a recorded finding: does the disagreement vanish under exactly that quirk?
            for quirk, label in QUIRKS:
                res2, _ = peg.parse(g, cfg, text, quirks=quirk)
                if res2[0] == "ok" and D.diff(a, D.dump_ref(res2[1])) is None:
                    out.add("known/" + label, ctx + f" at {df[1]}: textX {df[2]} reference")
                    break
            else:
                out.add("model/" + df[0], ctx + f" at {df[1]}: textX {df[2]} reference")
        elif problems:
            out.add("parent_links", ctx + ": " + "; ".join(problems[:3]))
        if count_objs(b) >= 2:
            rich = True
    out.cls(f"accepted={accepted}", f"rejected={rejected}")
    out.nontrivial = len(ks) >= 3 and rich and (rejected >= 1 or accepted >= 2)
    return out
