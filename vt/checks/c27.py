"""C27 - model parameters are validated and reach every loaded model.

Domain : metamodels with generated model parameter definitions (names from a pool of 5) and calls
         with generated keyword arguments (declared / undeclared mix, values of several types) to
         model_from_str (with and without file_name) and model_from_file, on generated import
         closures (vt.gen.files) for PlainNameImportURI (also with a search path), FQNImportURI,
         PlainNameGlobalRepo and RREL '+m:', with and without a global repository.
Oracle : any undeclared name -> TextXError before anything is loaded (no file of the directory is
         opened); otherwise every model created by this load (the models of the closure that were
         not cached before) exposes exactly the given parameters: dict(m._tx_model_params) == kwargs.
"""
import builtins
import os
import shutil
import tempfile

from hypothesis import strategies as st

from vt.checks import c17
from vt.gen import files as F
from vt.harness import Outcome

ID = "C27"
LEVEL = "exploration"
CASES = {"quick": 1500, "thorough": 80000}
NAMES = ["alpha", "beta", "gamma", "delta", "project_root"]
RULE = ("generated (declared subset of 5 names, given kwargs with values int/str/bool/None/list, loader in {model_from_file, "
        "model_from_str, model_from_str+file_name}, provider, global repository on/off, import graph of 1-5 files, an optional "
        "earlier load with other parameters). non-trivial: >=2 imported files and >=1 parameter given; also: an import that crosses a language border (two registered languages declaring different parameters); distinct by canonical JSON")
ASSUMPTIONS = [
    "'project_root' is declared by every metamodel (textX adds it); the other names only when the case declares them",
    "with a global repository, models cached by an earlier load keep the parameters of the load that created them",
]
LEVEL_TEXT = ("Generated parameter sets, loaders, providers and import closures; rejection-before-I/O observed through an "
              "open() wrapper, propagation through the repository contents.")
LEVEL_NOTE = "Trusts the open() wrapper and the repository listing of the root model."
TECHNIQUE = "property-based testing (Hypothesis) over generated import closures with an I/O-counting harness"
DESIGN_REF = "DESIGN.md section 4 C27"


@st.composite
def cases(draw):
    prov = draw(st.sampled_from(c17.PROVIDERS))
    g = draw(F.file_graphs(max_files=5, allow_glob=False, allow_lib=prov == "plain_importuri"))
    declared = sorted(draw(st.lists(st.sampled_from(NAMES[:4]), max_size=3, unique=True)))
    val = st.one_of(st.integers(-3, 3), st.sampled_from(["x", ""]), st.booleans(), st.none(), st.just([1, 2]))
    given = draw(st.dictionaries(st.sampled_from(NAMES[:4]), val, max_size=3))
    return {"graph": g, "provider": prov, "global_repo": draw(st.booleans()), "builtin": False, "shared_in": [],
            "shared_user": 0, "declared": declared, "given": given,
            "loader": draw(st.sampled_from(["file", "file", "str", "str_filename"])),
            "earlier": draw(st.sampled_from([None, None, {"alpha": 1}]))}


def strategy(tier):
    return st.one_of(cases(), cases(), cases(), cases(), cross_language_cases())


def evaluate(case):
    if case.get("kind") == "cross_language":
        return eval_cross_language(case)
    from textx.exceptions import TextXError
    from textx.scoping import get_included_models

    out = Outcome()
    g = case["graph"]
    tmp = os.path.realpath(tempfile.mkdtemp(prefix="vt-c27-"))
    opened = []
    real_open = builtins.open

    def counting_open(file, *a, **k):
        try:
            p = os.path.realpath(file) if isinstance(file, (str, bytes, os.PathLike)) else None
        except Exception:  # noqa: BLE001
            p = None
        if isinstance(p, str) and p.startswith(tmp + os.sep):
            opened.append(p)
        return real_open(file, *a, **k)

    try:
        # every file needs a reference so that the '+m:' provider follows its imports
        extra = {i: ("", f"use uself{i} -> d{i}_0\n") for i in range(g["n"])}
        ts = F.write(g, tmp, extra=extra)
        mm = c17.make_mm(case, tmp)
        for n in case["declared"]:
            mm.model_param_defs.add(n, "declared by the harness")
        declared = set(case["declared"]) | {"project_root"}
        given = dict(case["given"])
        undeclared = sorted(set(given) - declared)
        rootpath = os.path.realpath(F.fpath(g, tmp, 0))
        ctx = f"case={case}"
        out.cls("loader:" + case["loader"], "provider:" + case["provider"], "undeclared" if undeclared else "all_declared",
                "global_repo" if case["global_repo"] else "local_repo")
        out.sample = {"declared": sorted(declared), "given": given, "loader": case["loader"], "provider": case["provider"],
                      "files": g["n"]}
        cached_before = {}
        if case["earlier"] and case["global_repo"] and set(case["earlier"]) <= declared and g["n"] >= 2:
            # an earlier load of another root fills the global repository with other parameters
            other = os.path.realpath(F.fpath(g, tmp, g["n"] - 1))
            try:
                m0 = mm.model_from_file(other, **case["earlier"])
                for m in get_included_models(m0):
                    cached_before[os.path.realpath(m._tx_filename)] = m
                out.cls("earlier_load")
            except TextXError:
                pass
        builtins.open = counting_open
        del opened[:]
        err = None
        model = None
        try:
            if case["loader"] == "file":
                model = mm.model_from_file(rootpath, **given)
            elif case["loader"] == "str":
                if g["n"] > 1 or case["provider"] == "plain_globalrepo":
                    # a model from a string has no directory: only import-free roots make sense
                    text = "def d0_0 { def s0_0 }\nuse uself0 -> d0_0\n" if case["provider"] != "plain_globalrepo" else ts[0]
                    if case["provider"] == "plain_globalrepo":
                        out.inconclusive = "string_model_with_globalrepo"
                        return out
                else:
                    text = ts[0] if not any(a == 0 for a, _ in g["edges"]) else "def d0_0 { def s0_0 }\nuse uself0 -> d0_0\n"
                model = mm.model_from_str(text, **given)
            else:
                model = mm.model_from_str(ts[0], file_name=rootpath, **given)
        except TextXError as e:
            err = e
        finally:
            builtins.open = real_open
        if undeclared:
            if err is None:
                out.add("undeclared_accepted/" + case["loader"], ctx + f": {undeclared} not declared")
            elif opened:
                out.add("undeclared_rejected_after_io/" + case["loader"], ctx + f": opened {sorted(set(map(os.path.basename, opened)))}")
            out.nontrivial = True
            return out
        if err is not None:
            out.add("declared_rejected/" + case["loader"], ctx + f": {err}")
            return out
        nmodels = 0
        for m in get_included_models(model):
            fn = os.path.realpath(m._tx_filename) if getattr(m, "_tx_filename", None) else None
            if fn in cached_before and cached_before[fn] is m:
                continue  # created by the earlier load
            nmodels += 1
            got = dict(m._tx_model_params) if hasattr(m, "_tx_model_params") else None
            if got != given:
                which = "root" if m is model else "imported"
                out.add(f"params_not_propagated/{which}/{case['provider']}", ctx + f": {os.path.basename(fn or '<str>')} has "
                        f"{got!r}, expected {given!r}")
        out.nontrivial = nmodels >= 3 and len(given) >= 1
        return out
    finally:
        builtins.open = real_open
        shutil.rmtree(tmp, ignore_errors=True)


# -- an import that crosses a language border -----------------------------------------------------------------------
@st.composite
def cross_language_cases(draw):
    decl_a = draw(st.lists(st.sampled_from(NAMES[:4]), max_size=3, unique=True))
    decl_b = draw(st.lists(st.sampled_from(NAMES[:4]), max_size=3, unique=True))
    given = draw(st.lists(st.sampled_from(decl_a + ["project_root"]), max_size=3, unique=True))
    return {"kind": "cross_language", "decl_a": decl_a, "decl_b": decl_b, "given": given, "chain": draw(st.booleans()),
            "loader": draw(st.sampled_from(["file", "str_filename"]))}


def eval_cross_language(case):
    """two languages registered by file pattern; a file of language A imports a file of language B (which may import
    another A file); the parameters are declared by A only / by both.  Every model of the load exposes the given ones."""
    import textx.registration as r
    from textx import metamodel_from_str
    from textx.exceptions import TextXError
    from textx.scoping import providers as P

    out = Outcome()
    tmp = os.path.realpath(tempfile.mkdtemp(prefix="vt-c27x-"))
    try:
        def factory(decl):
            def make():
                mm = metamodel_from_str(F.grammar("", False))
                for n in decl:
                    mm.model_param_defs.add(n, "generated parameter")
                mm.register_scope_providers({"*.*": P.PlainNameImportURI()})
                return mm
            return make

        r.clear_language_registrations()
        r.register_language(r.LanguageDesc("c27a", pattern="*.c27a", description="", metamodel=factory(case["decl_a"])))
        r.register_language(r.LanguageDesc("c27b", pattern="*.c27b", description="", metamodel=factory(case["decl_b"])))
        with open(os.path.join(tmp, "main.c27a"), "w") as f:
            f.write('import "lib.c27b"\ndef ma\nuse u1 -> lb\n')
        with open(os.path.join(tmp, "lib.c27b"), "w") as f:
            f.write(('import "deep.c27a"\n' if case["chain"] else "") + "def lb\n" + ("use u2 -> da\n" if case["chain"] else ""))
        if case["chain"]:
            with open(os.path.join(tmp, "deep.c27a"), "w") as f:
                f.write("def da\n")
        kwargs = {n: f"value-of-{n}" for n in case["given"]}
        mm = r.metamodel_for_language("c27a")
        path = os.path.join(tmp, "main.c27a")
        out.sample = {"kind": "cross_language", "declared_a": case["decl_a"], "declared_b": case["decl_b"], "given": kwargs,
                      "chain": case["chain"]}
        out.cls("kind:cross_language", "chain" if case["chain"] else "one_import")
        out.nontrivial = any(n not in case["decl_b"] and n != "project_root" for n in case["given"])
        try:
            if case["loader"] == "file":
                m = mm.model_from_file(path, **kwargs)
            else:
                with open(path) as f:
                    m = mm.model_from_str(f.read(), file_name=path, **kwargs)
        except TextXError as e:
            return out.add("cross_language/load_failed", f"{out.sample}: {e}")
        models = [m] + [x for x in m._tx_model_repository.all_models if x is not m]
        for x in models:
            got = dict(x._tx_model_params) if hasattr(x, "_tx_model_params") else None
            if got != kwargs:
                out.add("cross_language/imported_model_params", f"{out.sample}: {os.path.basename(x._tx_filename)} exposes {got}")
        return out
    finally:
        try:
            r.clear_language_registrations()
        except Exception:  # noqa: BLE001
            pass
        shutil.rmtree(tmp, ignore_errors=True)
