"""C26 - the language and generator registries behave as case-insensitive maps.

Domain : operation sequences over a small universe (language names in case variants, one of them
         colliding with an entry-point language; two patterns; file names and pattern strings as
         queries; generator languages/targets incl. entry-point collisions; metamodel given as
         factory or as instance).  Exhaustive: breadth-first over *model* states - every operation
         is tried from every distinct registry state reachable in <= D operations (quick D=2, i.e.
         sequences of length 3; thorough D=3).  Generated: longer sequences (<= 25 steps).
Oracle : reference model (two dicts keyed by lower-cased names, seeded from the entry points read
         through importlib.metadata; metamodel cache with the documented rule); every return value
         / exception type compared after every step.
"""
import fnmatch

from hypothesis import strategies as st

from vt.harness import Outcome

ID = "C26"
LEVEL = "exploration"
CASES = {"quick": 1500, "thorough": 60000}
DEPTH = {"quick": 2, "thorough": 3}
RULE = ("exhaustive: every operation applied in every distinct model state reachable by <=2 (quick) / <=3 (thorough) "
        "operations (one representative prefix per state, every step compared); generated: random sequences of <=25 "
        "operations. non-trivial: the sequence contains a clear followed by a lookup, or a kwargs metamodel request "
        "followed by a plain one, or a case-variant lookup of a registered name; plus every pattern (length 2-4) of metamodel lookups with / without arguments after a factory / instance registration; distinct by canonical JSON")
ASSUMPTIONS = [
    "entry-point registrations are those visible through importlib.metadata in this environment",
    "LanguageDesc patterns are strings; factories accept arbitrary keyword arguments",
    "languages_for_file is compared as a set of language names (order not asserted)",
]
LEVEL_TEXT = ("Model-based: exhaustive over distinct reference-model states up to the stated depth (every operation from "
              "every state) plus generated longer histories; each step's observable result compared with a dict-based model.")
LEVEL_NOTE = "Trusts the reference registry model (written from the docstrings) and importlib.metadata for the entry points."
TECHNIQUE = "model-based testing: exhaustive BFS over reference-model states + Hypothesis-generated operation sequences"
DESIGN_REF = "DESIGN.md section 4, C26"

LANGS = ["alpha", "ALPHA", "beta", "Beta", "textx", "TextX"]
PATTERNS = ["*.a", "*.ab*"]
QUERIES = ["x.a", "y.abc", "m.tx", "*.a", "*.ab*", "zzz"]
GEN_LANGS = ["alpha", "Alpha", "any", "textX"]
TARGETS = ["t1", "T1", "dot", "DOT"]


def all_ops():
    ops = []
    for n in LANGS:
        if n.lower() != "textx":
            for p in PATTERNS:
                for kind in ("factory", "instance"):
                    ops.append(["reg_lang", n, p, kind])
        else:
            ops.append(["reg_lang", n, "*.a", "factory"])
        ops.append(["lang_desc", n])
        ops.append(["mm_lang", n, False])
        if n.lower() != "textx":
            ops.append(["mm_lang", n, True])
    for q in QUERIES:
        ops.append(["langs_for_file", q])
        ops.append(["lang_for_file", q])
        ops.append(["mm_for_file", q, False])
    ops.append(["mm_for_file", "x.a", True])
    for gl in GEN_LANGS:
        for t in TARGETS:
            ops.append(["reg_gen", gl, t])
            ops.append(["gen_desc", gl, t, False])
            ops.append(["gen_desc", gl, t, True])
    ops.append(["gen_for", "beta", "dot", True])
    ops.append(["gen_for", "beta", "dot", False])
    ops.append(["clear_langs"])
    ops.append(["clear_gens"])
    return ops


OPS = all_ops()
_EP = None


def entry_points_seed():
    """(languages, generators) visible through the entry points: name/pattern/kind read with importlib.metadata"""
    global _EP
    if _EP is None:
        from importlib.metadata import entry_points

        langs, gens = {}, {}
        for e in entry_points(group="textx_languages"):
            d = e.load()
            langs[d.name.lower()] = {"name": d.name, "pattern": d.pattern, "kind": "ep", "tag": "ep:" + d.name}
        for e in entry_points(group="textx_generators"):
            d = e.load()
            gens.setdefault(d.language.lower(), {})[d.target.lower()] = "ep:" + d.language + "->" + d.target
        _EP = (langs, gens)
    return _EP


class Model:
    """reference registry: plain dicts keyed by lower-cased names"""

    def __init__(self):
        self.clear_langs()
        self.clear_gens()
        self.serial = 0

    def clear_langs(self):
        self.langs = {k: dict(v) for k, v in entry_points_seed()[0].items()}
        self.cache = {}

    def clear_gens(self):
        self.gens = {k: dict(v) for k, v in entry_points_seed()[1].items()}

    def key(self):
        return (tuple(sorted((k, v["name"], v["pattern"], v["kind"]) for k, v in self.langs.items() if v["kind"] != "ep")),
                tuple(sorted((k, tuple(sorted(v.items()))) for k, v in self.gens.items())),
                tuple(sorted(self.cache.items())))

    def matching(self, q):
        return [v for v in self.langs.values() if q == v["pattern"] or fnmatch.fnmatch(q, v["pattern"])]

    def mm(self, name, kwargs):
        k = name.lower()
        if k not in self.cache or kwargs:
            if k not in self.langs:
                return "err:TextXRegistrationError"
            d = self.langs[k]
            if d["kind"] == "instance":
                self.cache[k] = f"inst:{d['name']}@{d['reg']}"
            else:
                self.serial += 1
                self.cache[k] = f"new:{d['name']}#{self.serial}"
        return "mm:" + self.cache[k]

    def apply(self, op):
        o = op[0]
        if o == "reg_lang":
            _, n, p, kind = op
            if n.lower() in self.langs:
                return "err:TextXRegistrationError"
            # every registration of a metamodel *instance* brings its own object (the harness creates one per
            # registration), so the token carries the registration's serial number
            self.regs = getattr(self, "regs", 0) + 1
            self.langs[n.lower()] = {"name": n, "pattern": p, "kind": kind, "tag": None, "reg": self.regs}
            return "ok"
        if o == "lang_desc":
            d = self.langs.get(op[1].lower())
            return f"desc:{d['name']}:{d['pattern']}" if d else "err:TextXRegistrationError"
        if o == "mm_lang":
            return self.mm(op[1], op[2])
        if o == "langs_for_file":
            return "langs:" + ",".join(sorted(v["name"] for v in self.matching(op[1])))
        if o == "lang_for_file":
            m = self.matching(op[1])
            return f"desc:{m[0]['name']}:{m[0]['pattern']}" if len(m) == 1 else "err:TextXRegistrationError"
        if o == "mm_for_file":
            m = self.matching(op[1])
            if len(m) != 1:
                return "err:TextXRegistrationError"
            return self.mm(m[0]["name"], op[2])
        if o == "reg_gen":
            _, gl, t = op
            d = self.gens.setdefault(gl.lower(), {})
            if t.lower() in d:
                return "err:TextXRegistrationError"
            d[t.lower()] = f"gen:{gl}->{t}"
            return "ok"
        if o in ("gen_desc", "gen_for"):
            _, gl, t, anyp = op
            g = self.gens.get(gl.lower(), {}).get(t.lower())
            if g is None and anyp:
                g = self.gens.get("any", {}).get(t.lower())
            return g if g is not None else "err:TextXRegistrationError"
        if o == "clear_langs":
            self.clear_langs()
            return "ok"
        if o == "clear_gens":
            self.clear_gens()
            return "ok"
        raise ValueError(op)


def enumerate_cases(tier):
    depth = DEPTH[tier]
    seen = {Model().key(): []}
    frontier = [[]]
    for _ in range(depth + 1):
        nxt = []
        for prefix in frontier:
            for op in OPS:
                yield {"ops": prefix + [op]}
                m = Model()
                for p in prefix + [op]:
                    m.apply(p)
                # the model's serial numbers grow with history; normalise by the structural key only
                k = m.key()
                k = (k[0], k[1], tuple((a, b.split("#")[0]) for a, b in k[2]))
                if k not in seen:
                    seen[k] = prefix + [op]
                    nxt.append(prefix + [op])
        frontier = nxt
        if _ == depth - 1:
            # last round: only try every op from the states found, do not expand further
            pass
    evidence_states["n"] = len(seen)
    # the state key forgets *which* instance is cached (serial numbers are dropped), so sequences of lookups with and
    # without arguments are enumerated on their own: every pattern of length <= 4 after each kind of registration
    import itertools

    for kind in ("factory", "instance"):
        for n in (2, 3, 4):
            for pat in itertools.product([False, True], repeat=n):
                for via in ("mm_lang", "mm_for_file"):
                    q = "beta" if via == "mm_lang" else "x.a"
                    yield {"ops": [["reg_lang", "beta", "*.a", kind]] + [[via, q, k] for k in pat]}
                yield {"ops": [["reg_lang", "beta", "*.a", kind]] + [[("mm_lang" if i % 2 else "mm_for_file"),
                                                                     ("beta" if i % 2 else "x.a"), k] for i, k in enumerate(pat)]}


evidence_states = {"n": 0}


def strategy(tier):
    return st.fixed_dictionaries({"ops": st.lists(st.sampled_from(OPS), min_size=3, max_size=25)})


class _Real:
    """drives textx.registration; maps results to the same views as the model"""

    def __init__(self):
        import textx.registration as r
        from textx.metamodel import TextXMetaModel

        self.r = r
        self.MM = TextXMetaModel
        self.tokens = {}  # id(real metamodel) -> model token seen with it
        self.keep = []
        self.gen_tags = {}

    def factory(self, name):
        def f(**kwargs):
            m = self.MM()
            self.keep.append(m)
            return m

        return f

    def gen_view(self, g):
        return self.gen_tags.get(id(g)) or ("ep:" + g.language + "->" + g.target)

    def apply(self, op):
        r = self.r
        o = op[0]
        try:
            if o == "reg_lang":
                _, n, p, kind = op
                mm = self.factory(n)
                if kind == "instance":
                    mm = self.MM()
                    self.keep.append(mm)
                r.register_language(n, pattern=p, description="d", metamodel=mm)
                return "ok", None
            if o == "lang_desc":
                d = r.language_description(op[1])
                return f"desc:{d.name}:{d.pattern}", None
            if o == "mm_lang":
                m = r.metamodel_for_language(op[1], **({"opt": 1} if op[2] else {}))
                return "mm", m
            if o == "langs_for_file":
                return "langs:" + ",".join(sorted(d.name for d in r.languages_for_file(op[1]))), None
            if o == "lang_for_file":
                d = r.language_for_file(op[1])
                return f"desc:{d.name}:{d.pattern}", None
            if o == "mm_for_file":
                m = r.metamodel_for_file(op[1], **({"opt": 1} if op[2] else {}))
                return "mm", m
            if o == "reg_gen":
                _, gl, t = op
                f = lambda *a, **k: None  # noqa: E731
                self.keep.append(f)
                r.register_generator(gl, t, description="d", generator=f)
                self.gen_tags[id(f)] = f"gen:{gl}->{t}"
                return "ok", None
            if o == "gen_desc":
                _, gl, t, anyp = op
                d = r.generator_description(gl, t, any_permitted=anyp)
                return self.gen_tags.get(id(d.generator)) or ("ep:" + d.language + "->" + d.target), None
            if o == "gen_for":
                _, gl, t, anyp = op
                g = r.generator_for_language_target(gl, t, any_permitted=anyp)
                tag = self.gen_tags.get(id(g))
                if tag is None:
                    for lang, d in r.generator_descriptions().items():
                        for tt, desc in d.items():
                            if desc.generator is g:
                                tag = "ep:" + desc.language + "->" + desc.target
                return tag or "gen:?", None
            if o == "clear_langs":
                r.clear_language_registrations()
                return "ok", None
            if o == "clear_gens":
                r.clear_generator_registrations()
                return "ok", None
        except r.TextXRegistrationError:
            return "err:TextXRegistrationError", None
        raise ValueError(op)


_PRISTINE = None


def _reset(r):
    """test isolation between cases: put the registries back to the freshly discovered state.
    Rescanning the entry points costs ~25 ms, so the pristine dicts are captured once (through the
    public API) and re-installed by assignment; the clear_* operations *inside* a sequence still run
    the real code."""
    global _PRISTINE
    if _PRISTINE is None or not all(hasattr(r, a) for a in ("languages", "generators", "metamodels")):
        r.clear_language_registrations()
        r.clear_generator_registrations()
        if _PRISTINE is None:
            _PRISTINE = (dict(r.language_descriptions()), {k: dict(v) for k, v in r.generator_descriptions().items()})
        return
    r.languages = dict(_PRISTINE[0])
    r.generators = {k: dict(v) for k, v in _PRISTINE[1].items()}
    r.metamodels = {}


def evaluate(case):
    import textx.registration as r

    out = Outcome()
    ops = case["ops"]
    kinds = [o[0] for o in ops]
    nt = False
    for i, o in enumerate(ops):
        if o[0].startswith("clear") and any(k not in ("clear_langs", "clear_gens") for k in kinds[i + 1:]):
            nt = True
        if o[0] in ("mm_lang", "mm_for_file") and o[-1] is True and any(
                p[0] in ("mm_lang", "mm_for_file") and p[-1] is False for p in ops[i + 1:]):
            nt = True
        if o[0] in ("lang_desc", "mm_lang") and any(
                p[0] == "reg_lang" and p[1].lower() == o[1].lower() and p[1] != o[1] for p in ops[:i]):
            nt = True
    out.nontrivial = nt
    out.cls(f"len={min(len(ops), 6)}")
    for k in set(kinds):
        out.cls("op:" + k)
    out.sample = {"ops": [" ".join(map(str, o)) for o in ops]}
    _reset(r)
    try:
        model, real = Model(), _Real()
        for i, op in enumerate(ops):
            exp = model.apply(op)
            got, obj = real.apply(op)
            if got == "mm":
                # identity pattern: the same model token <=> the same real object
                if not exp.startswith("mm:"):
                    return out.add(f"{op[0]}/returned_metamodel_expected_error", f"step {i} of {out.sample['ops']}: expected {exp}")
                tok = exp[3:]
                if tok.startswith("ep:") or tok.startswith("new:textX"):
                    continue  # entry-point factories are opaque to the harness; only their presence is compared
                prev = real.tokens.get(id(obj))
                if prev is None:
                    if tok in real.tokens.values():
                        return out.add(f"{op[0]}/fresh_instance_expected_cached", f"step {i} of {out.sample['ops']}: model says {tok}")
                    real.tokens[id(obj)] = tok
                elif prev != tok:
                    sub = "cached_instance_expected_fresh" if tok.startswith("new:") else "wrong_instance"
                    return out.add(f"{op[0]}/{sub}", f"step {i} of {out.sample['ops']}: model says {tok}, object was {prev}")
            elif got != exp:
                return out.add(f"{op[0]}/result", f"step {i} of {out.sample['ops']}: expected {exp!r} got {got!r}")
        return out
    finally:
        r.clear_language_registrations()
        r.clear_generator_registrations()


def evidence_extra(tier):
    # count the distinct model states again (cheap, model only) so that the number is measured in the parent
    n = 0
    for _ in enumerate_cases(tier):
        n += 1
    return {"states": evidence_states["n"], "exhaustive_sequences": n, "operations_in_universe": len(OPS)}
