"""C03 - rule kinds determine what objects a model contains.

Domain : generated grammars biased to abstract rules: chains and cycles of abstract rules, mixed
         alternatives of match and common references, nested choices inside sequences, match rules
         producing several tokens; accepted inputs derived from them.
Oracle : vt.ref.peg.kinds (least fixpoint) and the reference interpreter:
         (a) the rule type of every class equals the reference kind;
         (b) every object in a model is an instance of a common rule, never of an abstract rule's
             class; match rules yield str/int/float/bool;
         (c) an abstract rule yields the result of the first non-match reference of the matched
             alternative, else the concatenated text (dump comparison with the reference model);
         (d) textx_isinstance: 'if' - a value stored in an attribute declared with rule R is an
             instance of R; 'only if' - for a model object of common rule S and any rule R:
             textx_isinstance(obj, R) <=> R == S or R == OBJECT or S in Reach(R), where Reach follows
             the references that can yield the result of an abstract rule's alternatives.
"""
from hypothesis import strategies as st

from vt import dump as D
from vt.checks import c01
from vt.gen import grammar as G
from vt.gen import inputs as I
from vt.harness import Outcome
from vt.ref import peg

ID = "C03"
LEVEL = "exploration"
CASES = {"quick": 4000, "thorough": 250000}
RULE = ("generated grammars (2-6 rules, at least one abstract rule in 80%, guarded cycles of abstract rules, 'complex mix' "
        "alternatives) x 6 derived inputs; non-trivial: the grammar has an abstract rule with >=2 alternatives and an "
        "accepted input whose model holds an object reached through an abstract rule; distinct by canonical JSON")
ASSUMPTIONS = c01.ASSUMPTIONS[:4] + [
    "Reach(R): a reference can yield the result of an alternative if it is the first non-match reference on some path "
    "through the alternative (optional parts and nested choices may be skipped)",
]
LEVEL_TEXT = ("Differential testing of rule classification, model contents and textx_isinstance against a fixpoint "
              "classification and a reference interpreter on generated grammars/inputs.")
LEVEL_NOTE = "Trusts vt/ref/peg.py (kinds fixpoint, reference models) and the Reach computation of this check."
TECHNIQUE = "property-based differential testing (Hypothesis) against a reference classification and interpreter"
DESIGN_REF = "DESIGN.md section 4 C03"


@st.composite
def cases(draw):
    g = draw(G.grammars(max_rules=6, min_rules=3, modifiers=False, comments=False, eolterm=False,
                        kind_pool=["common", "abstract", "abstract", "abstract", "match"]))
    cfg = {"skipws": True, "ws": None, "auto_init_attributes": draw(st.booleans()), "use_regexp_group": False}
    texts = draw(I.inputs_for(g, cfg, n=6, mutate=False))
    return {"g": g, "cfg": cfg, "inputs": texts}


def strategy(tier):
    return cases()


def yields(e, kinds):
    """(rules that can be the first non-match node of e, can e complete without a non-match node)"""
    k = e[0]
    if k in ("str", "re", "not", "and"):
        return set(), True
    if k == "ref":
        if e[1] in peg.BASE_NAMES or kinds[e[1]] == "match":
            return set(), True
        return {e[1]}, False
    if k == "seq":
        acc = set()
        for x in e[1]:
            s, p = yields(x, kinds)
            acc |= s
            if not p:
                return acc, False
        return acc, True
    if k == "alt":
        acc, anyp = set(), False
        for x in e[1]:
            s, p = yields(x, kinds)
            acc |= s
            anyp = anyp or p
        return acc, anyp
    if k in ("opt", "star", "sup"):
        s, _ = yields(e[1], kinds)
        return (set() if k == "sup" else s), True
    if k == "plus":
        return yields(e[1], kinds)
    if k == "unord":
        acc, allp = set(), True
        for x in e[1]:
            s, p = yields(x, kinds)
            acc |= s
            allp = allp and p
        return acc, allp
    return set(), True


def reach(g, kinds):
    rules = G.rules_by_name(g)
    direct = {n: (yields(r["body"], kinds)[0] if kinds[n] == "abstract" else set()) for n, r in rules.items()}
    res = {}
    for n in rules:
        seen, todo = set(), list(direct[n])
        while todo:
            x = todo.pop()
            if x in seen:
                continue
            seen.add(x)
            todo += list(direct.get(x, ()))
        res[n] = seen
    return res


def model_objects(m):
    out, seen = [], set()

    def go(o):
        if isinstance(o, list):
            for x in o:
                go(x)
            return
        if o is None or isinstance(o, (str, int, float, bool)) or id(o) in seen:
            return
        seen.add(id(o))
        out.append(o)
        for a, attr in getattr(type(o), "_tx_attrs", {}).items():
            if attr.cont:
                go(getattr(o, a, None))

    go(m)
    return out


def evaluate(case):
    from textx import textx_isinstance
    from textx.exceptions import TextXError, TextXSemanticError, TextXSyntaxError

    out = Outcome()
    g, cfg = case["g"], case["cfg"]
    gtext = G.to_text(g)
    kinds = peg.kinds(g)
    ainfo = peg.attr_info(g)
    try:
        mm = c01.make_metamodel(g, cfg)
    except TextXError as e:
        return out.add("grammar_rejected", f"{gtext!r}: {e}")
    for k in set(kinds.values()):
        out.cls("rulekind:" + k)
    abstract_multi = any(kinds[r["name"]] == "abstract" and r["body"][0] == "alt" for r in g["rules"])
    # (a) rule types
    for n, k in kinds.items():
        t = mm[n]._tx_type
        if t != k:
            out.add(f"rule_type/{k}_classified_{t}", f"grammar={gtext!r}: rule {n} is {k}, textX says {t}")
    R = reach(g, kinds)
    out.sample = {"grammar": gtext, "inputs": case["inputs"][:3]}
    via_abstract = False
    for text in case["inputs"]:
        res, it = peg.parse(g, cfg, text)
        if res[0] != "ok":
            continue
        ctx = f"grammar={gtext!r} input={text!r}"
        try:
            model = mm.model_from_str(text)
        except TextXSyntaxError as e:
            out.add("accepted_input_rejected", ctx + f": {e}")
            continue
        except TextXSemanticError as e:
            out.add("semantic_error", ctx + f": {e}")
            continue
        if res[1] is None:
            continue
        # (c) abstract results / model contents through the dump
        a_, b_ = D.dump_textx(model), D.dump_ref(res[1])
        df = D.diff(a_, b_)
        if df:
            for quirk, label in c01.QUIRKS:
                res2, _ = peg.parse(g, cfg, text, quirks=quirk)
                if res2[0] == "ok" and D.diff(a_, D.dump_ref(res2[1])) is None:
                    out.add("known/" + label, ctx + f" at {df[1]}: textX {df[2]} reference")
                    break
            else:
                out.add("abstract_result/" + df[0], ctx + f" at {df[1]}: textX {df[2]} reference")
            continue
        # (b) only common rules are instantiated
        objs = model_objects(model)
        for o in objs:
            cn = type(o).__name__
            if kinds.get(cn) != "common":
                out.add("instantiated_non_common_rule", ctx + f": object of class {cn} ({kinds.get(cn)})")
        # (d) isinstance
        for o in objs:
            s = type(o).__name__
            for a, attr in type(o)._tx_attrs.items():
                decl = ainfo[s][a]["type"]
                vals = getattr(o, a)
                vals = vals if isinstance(vals, list) else [vals]
                for v in vals:
                    if v is None or isinstance(v, (str, int, float, bool)):
                        continue
                    if decl != "OBJECT" and kinds.get(decl) == "abstract":
                        via_abstract = True
                    try:
                        ok = textx_isinstance(v, mm[decl])
                    except RecursionError:
                        out.add("isinstance/recursion_error", ctx + f": textx_isinstance({type(v).__name__} object, {decl})")
                        continue
                    if not ok:
                        out.add("isinstance/if/stored_value_not_instance_of_declared_rule",
                                ctx + f": {s}.{a} declared {decl} holds a {type(v).__name__} object")
            for r in kinds:
                exp = r == s or s in R[r]
                try:
                    got = textx_isinstance(o, mm[r])
                except RecursionError:
                    out.add("isinstance/recursion_error", ctx + f": textx_isinstance({s} object, {r})")
                    continue
                if got != exp:
                    way = "only_if/true_but_not_reachable" if got else "only_if/false_but_reachable"
                    out.add("isinstance/" + way, ctx + f": textx_isinstance({s} object, {r}) is {got}; Reach({r}) = {sorted(R[r])}")
            if not textx_isinstance(o, mm["OBJECT"]):
                out.add("isinstance/object", ctx + f": {s} object is not an OBJECT")
    out.nontrivial = abstract_multi and via_abstract
    if via_abstract:
        out.cls("object_through_abstract_rule")
    if abstract_multi:
        out.cls("abstract_with_alternatives")
    return out
