"""C31 - generated output files are all-or-nothing.

Domain : the three built-in generators (any->dot on generated models, textX->dot and textX->PlantUML on
         generated metamodels; inputs from the C29 generators), each run once without faults to count
         the operations (open / write / flush / close) performed on files in the output directory,
         then re-run in a fresh directory with a failure injected at one generated operation index:
         a write / flush / close that raises, with none or half of the still-buffered data reaching the
         disk (the wrapper keeps its own small write buffer, so a failing close really loses data);
         the target absent beforehand, present with older complete content, or a symbolic link to an
         older export elsewhere / to nothing (run with overwrite).
Oracle : after the failed run the target path is absent, or holds complete content (the older content or
         the full new export; object ids normalised); no other file is left in the output directory;
         a following fault-free run *without* overwrite ends with a complete file at the target path
         (i.e. nothing truncated is skipped as already generated).  Faults are injected by wrapping
         builtins.open / io.open for paths inside the output directory only, so the check does not
         depend on how the export opens its files (direct, temporary file + rename, os.fdopen).
"""
import builtins
import io
import os
import re
import shutil
import tempfile

from hypothesis import strategies as st

from vt.checks import c29
from vt.gen import grammar as G
from vt.harness import Outcome, exc_bucket

ID = "C31"
LEVEL = "exploration"
CASES = {"quick": 2000, "thorough": 150000}
RULE = ("a generated model/metamodel (C29 generators), a generator, an operation index (mod the number of file operations of "
        "the fault-free run), a fault kind and an initial state. non-trivial: the fault hits after at least one successful "
        "write (a partial file would exist in a write-in-place implementation). distinct by canonical JSON")
ASSUMPTIONS = [
    "failures are I/O errors (OSError) raised by write/flush/close of files in the output directory",
    "rename/replace and unlink do not fail",
    "one generator run at a time per output directory",
]
LEVEL_TEXT = ("Fault injection at every file operation of the built-in generators on generated inputs; invariant over the "
              "final directory state plus a follow-up run without overwrite.")
LEVEL_NOTE = "Trusts the open() wrapper to see every file the exporters create below the output directory."
TECHNIQUE = "property-based fault injection (Hypothesis-generated inputs and crash points) with a directory-state invariant"
DESIGN_REF = "DESIGN.md section 4 C31"

OLD = "// an older, complete export\n"


@st.composite
def cases(draw):
    k = draw(st.integers(0, 9))
    if k < 1:
        # a model that carries a repository (main file importing a library): the export adds one cluster block per file
        sub = {"kind": "multi", "ndefs": draw(st.integers(1, 3))}
        gen = "any-dot"
    elif k < 4:
        sub = draw(c29.model_cases())
        gen = "any-dot"
    else:
        sub = draw(c29.mm_cases())
        gen = draw(st.sampled_from(["textx-dot", "textx-plantuml"]))
    return {"sub": sub, "gen": gen, "op": draw(st.integers(0, 10 ** 6)),
            "fault": draw(st.sampled_from(["raise", "partial"])),
            "initial": draw(st.sampled_from(["absent", "absent", "old", "old", "symlink_old", "symlink_dangling"]))}


def strategy(tier):
    return cases()


class Injected(OSError):
    pass


class Proxy:
    """file object wrapper that counts operations and fails at one of them.  It keeps its own small write buffer
    (like a buffered file: data reaches the disk when the buffer fills, at flush and at close), so that a failing
    close or flush really loses the data that was still buffered."""

    BUF = 48

    def __init__(self, f, ctl, path):
        object.__setattr__(self, "_f", f)
        object.__setattr__(self, "_ctl", ctl)
        object.__setattr__(self, "_path", path)
        object.__setattr__(self, "_buf", [])

    def __getattr__(self, name):
        return getattr(self._f, name)

    def __enter__(self):
        return self

    def __exit__(self, *a):
        self.close()
        return False

    def __iter__(self):
        return iter(self._f)

    def _pending(self):
        data = "".join(self._buf)
        del self._buf[:]
        return data

    def _spill(self, data):
        if data:
            self._f.write(data)
            self._f.flush()

    def write(self, data):
        ctl = self._ctl
        if ctl.tick("write"):
            if ctl.fault == "partial":
                pending = self._pending() + data
                self._spill(pending[: len(pending) // 2])
            raise Injected(28, "No space left on device (injected)")
        self._buf.append(data)
        ctl.written += 1
        if sum(len(x) for x in self._buf) > self.BUF:
            self._spill(self._pending())
        return len(data)

    def writelines(self, lines):
        for ln in lines:
            self.write(ln)

    def flush(self):
        if self._ctl.tick("flush"):
            if self._ctl.fault == "partial":
                pending = self._pending()
                self._spill(pending[: len(pending) // 2])
            raise Injected(5, "Input/output error (injected)")
        self._spill(self._pending())
        return None

    def close(self):
        if self._f.closed:
            return None
        ctl = self._ctl
        if ctl.tick("close"):
            pending = self._pending()  # what was still buffered never reaches the disk
            if ctl.fault == "partial":
                self._spill(pending[: len(pending) // 2])
            self._f.close()
            raise Injected(5, "Input/output error on close (injected)")
        self._spill(self._pending())
        return self._f.close()


class Control:
    def __init__(self, root, fail_at=None, fault="raise"):
        self.root = os.path.realpath(root) + os.sep
        self.fail_at = fail_at
        self.fault = fault
        self.ops = []
        self.written = 0
        self.hit_after_writes = None
        self.fired = False

    def tick(self, kind):
        i = len(self.ops)
        self.ops.append(kind)
        if self.fail_at is not None and i == self.fail_at and not self.fired:
            self.fired = True
            self.hit_after_writes = self.written
            return True
        return False

    def inside(self, file):
        try:
            if isinstance(file, int):
                file = os.readlink(f"/proc/self/fd/{file}")
            file = os.fspath(file)
            # the directory is resolved, the name is not: an output name that is a symbolic link is still an output
            p = os.path.join(os.path.realpath(os.path.dirname(os.path.abspath(file))), os.path.basename(file))
        except Exception:  # noqa: BLE001
            return None
        return p if p.startswith(self.root) else None


class Patched:
    def __init__(self, ctl):
        self.ctl = ctl

    def __enter__(self):
        self.b, self.i = builtins.open, io.open
        real = self.i
        ctl = self.ctl

        def opener(file, mode="r", *a, **kw):
            f = real(file, mode, *a, **kw)
            p = ctl.inside(file)
            if p is not None and any(c in mode for c in "wax+"):
                return Proxy(f, ctl, p)
            return f

        builtins.open = opener
        io.open = opener
        return self

    def __exit__(self, *a):
        builtins.open, io.open = self.b, self.i
        return False


def norm(text):
    return re.sub(r"\d{6,}", "N", text)


_MULTI = {}


def _multi_model(ndefs):
    """a two-file model (main imports lib) loaded once per process and definition count"""
    if ndefs not in _MULTI:
        from textx import metamodel_from_str
        from textx.scoping import providers as P

        from vt.gen import files as F

        d = tempfile.mkdtemp(prefix="c31-multi-")
        with open(os.path.join(d, "lib.m"), "w") as f:
            f.write("".join(f"def l{i}\n" for i in range(ndefs)))
        with open(os.path.join(d, "main.m"), "w") as f:
            f.write('import "lib.m"\n' + "".join(f"def m{i}\n" for i in range(ndefs)) + "use u0 -> l0\n")
        mm = metamodel_from_str(F.grammar("", False))
        mm.register_scope_providers({"*.*": P.PlainNameImportURI()})
        _MULTI[ndefs] = (mm, mm.model_from_file(os.path.join(d, "main.m")))
        shutil.rmtree(d, ignore_errors=True)
    return _MULTI[ndefs]


def build(case):
    """(callable(outdir, overwrite), target file name) or None"""
    from textx import metamodel_from_str
    from textx.exceptions import TextXError
    from textx.registration import generator_for_language_target

    sub = case["sub"]
    try:
        if case["gen"] == "any-dot" and sub.get("kind") == "multi":
            mmf, model = _multi_model(sub["ndefs"])
            g = generator_for_language_target("any", "dot")

            def run(outdir, overwrite):
                model._tx_filename = os.path.join(outdir, "input.fam")
                g(mmf, model, outdir, overwrite, False)

            return run, "input.dot"
        if case["gen"] == "any-dot":
            mm = c29.family_mm()
            model = mm.model_from_str(c29.model_text(sub))
            g = generator_for_language_target("any", "dot")

            def run(outdir, overwrite):
                model._tx_filename = os.path.join(outdir, "input.fam")
                g(mm, model, outdir, overwrite, False)

            return run, "input.dot"
        mm = metamodel_from_str(G.to_text(sub["g"]))
    except TextXError:
        return None
    target = "PlantUML" if case["gen"] == "textx-plantuml" else "dot"
    g = generator_for_language_target("textX", target)

    def run(outdir, overwrite):
        mm.file_name = os.path.join(outdir, "input.tx")
        g(None, mm, outdir, overwrite, False)

    return run, "input.pu" if target == "PlantUML" else "input.dot"


def evaluate(case):
    import logging

    lg = logging.getLogger("textx")
    if not lg.handlers:
        lg.addHandler(logging.NullHandler())  # keeps 'NOT overwriting' warnings of gen_file out of the check's output
    out = Outcome()
    built = build(case)
    out.sample = {"gen": case["gen"], "fault": case["fault"], "initial": case.get("initial", case.get("preexisting"))}
    if built is None:
        out.inconclusive = "input_rejected"
        return out
    run, tname = built
    tmp = tempfile.mkdtemp(prefix="c31-")
    try:
        # 1. fault-free run: operation count and reference content
        ref_dir = os.path.join(tmp, "ref")
        os.mkdir(ref_dir)
        ctl = Control(ref_dir)
        try:
            with Patched(ctl):
                run(ref_dir, False)
        except Exception as e:  # noqa: BLE001
            out.inconclusive = "fault_free_run_failed:" + type(e).__name__
            return out
        if sorted(os.listdir(ref_dir)) != [tname] or not ctl.ops:
            out.add("fault_free_run_unexpected_files", f"{sorted(os.listdir(ref_dir))}, ops {len(ctl.ops)}")
            return out
        with open(os.path.join(ref_dir, tname), encoding="utf-8") as f:
            reference = norm(f.read().replace(ref_dir, "<DIR>"))
        n = len(ctl.ops)
        k = case["op"] % n
        out.sample.update({"operations": n, "fail_at": k, "op_kind": ctl.ops[k]})
        # 2. the run with the injected failure
        work = os.path.join(tmp, "work")
        os.mkdir(work)
        target = os.path.join(work, tname)
        initial = case.get("initial") or ("old" if case.get("preexisting") else "absent")
        had_old = initial in ("old", "symlink_old")
        if initial == "old":
            with open(target, "w", encoding="utf-8") as f:
                f.write(OLD)
        elif initial.startswith("symlink"):
            # the output name is a symbolic link to an older export kept elsewhere (or to nothing)
            store = os.path.join(tmp, "store")
            os.mkdir(store)
            if initial == "symlink_old":
                with open(os.path.join(store, "older" + os.path.splitext(tname)[1]), "w", encoding="utf-8") as f:
                    f.write(OLD)
            os.symlink(os.path.join(store, "older" + os.path.splitext(tname)[1]), target)
        ctl2 = Control(work, fail_at=k, fault=case["fault"])
        raised = None
        try:
            with Patched(ctl2):
                run(work, True)
        except Injected as e:
            raised = e
        except Exception as e:  # noqa: BLE001
            out.add(exc_bucket(e, "other_exception_after_injected_failure"), f"{type(e).__name__}: {e}")
            return out
        if not ctl2.fired:
            out.inconclusive = "fault_not_reached"
            return out
        out.cls("op:" + ctl.ops[k])
        out.cls("fault:" + case["fault"])
        out.cls("initial:" + initial)
        out.cls("propagated" if raised else "swallowed")
        out.nontrivial = (ctl2.hit_after_writes or 0) > 0
        state = "absent"
        if os.path.exists(target):
            with open(target, encoding="utf-8", errors="replace") as f:
                content = f.read()
            if content == OLD and had_old:
                state = "old"
            elif norm(content.replace(work, "<DIR>")) == reference:
                state = "new"
            else:
                state = "partial"
        out.cls("target_after_failure:" + state)
        where = f"{case['gen']}/{ctl.ops[k]}"
        feat = "/symlinked_output" if initial.startswith("symlink") else ""
        if state == "partial":
            out.add(f"partial_output_left/{case['gen']}{feat}",
                    f"{where}: failure at operation {k} of {n} ({case['fault']}, initial state {initial}) left {len(content)} "
                    f"characters of {len(reference)} at {tname}")
        others = [x for x in sorted(os.listdir(work)) if x != tname]
        if others:
            out.add(f"other_file_left/{case['gen']}", f"{where}: {others}")
        # 3. a later run without overwrite
        try:
            run(work, False)
        except Exception as e:  # noqa: BLE001
            out.add(exc_bucket(e, "rerun_raises"), f"{type(e).__name__}: {e}")
            return out
        ok = False
        if os.path.exists(target):
            with open(target, encoding="utf-8", errors="replace") as f:
                content = f.read()
            ok = norm(content.replace(work, "<DIR>")) == reference or (content == OLD and had_old)
        if not ok:
            out.add(f"rerun_without_overwrite_keeps_incomplete_file/{case['gen']}{feat}",
                    f"{where}: after the failed run a run without overwrite ends with an incomplete {tname}")
        return out
    finally:
        shutil.rmtree(tmp, ignore_errors=True)
