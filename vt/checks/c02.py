"""C02 - assignments never lose, duplicate or reorder matched values.

Domain : generated grammars that assign the same attribute at several syntactic positions in
         nestings of sequence, ordered choice, optional, repetition and unordered group (1-2 common
         rules, RHS values incl. falsy ones), plus inputs derived from them.
Oracle : (a) multiplicity (two-sided, sound): an attribute whose abstract maximal count is <= 1 must be
             scalar; an attribute for which some generated accepted input makes the reference
             interpreter collect >= 2 values in one object (a witness) must be a list; the rest is
             counted as undecided;
         (b) the values the reference interpreter collects per object/attribute equal the model's
             (each once, in input order; scalar => the matched value);
         (c) no accepted input raises 'Multiple assignments'.
"""
from hypothesis import strategies as st

from vt import dump as D
from vt.checks import c01
from vt.gen import grammar as G
from vt.gen import inputs as I
from vt.harness import Outcome
from vt.ref import peg

ID = "C02"
LEVEL = "exploration"
CASES = {"quick": 5000, "thorough": 300000}
RULE = ("generated grammars (1-2 common rules, attribute pool {a,b}, assignment nesting depth<=3 over seq/alt/opt/star/"
        "plus/unordered) x auto_init on/off x 8 derived inputs (25% mutated). non-trivial: some attribute is assigned at >=2 "
        "syntactic positions and an accepted input makes >=2 of them fire in one object, or a falsy value fires first; "
        "distinct by canonical JSON")
ASSUMPTIONS = c01.ASSUMPTIONS[:5] + [
    "multiplicity oracle is two-sided: scalar required when the abstract count is <=1, list required only with a witness input",
]
LEVEL_TEXT = ("Differential testing against the reference interpreter's trace of matched values plus a static abstract "
              "count of assignments; two-sided multiplicity oracle so that unreachable second assignments are not judged.")
LEVEL_NOTE = "Trusts vt/ref/peg.py (value trace, abstract multiplicity count)."
TECHNIQUE = "property-based differential testing (Hypothesis) against a reference interpreter + abstract multiplicity count"
DESIGN_REF = "DESIGN.md sections 3.4, 4 C02"


@st.composite
def cases(draw):
    g = draw(G.assign_grammars())
    cfg = {"skipws": True, "ws": None, "auto_init_attributes": draw(st.booleans()), "use_regexp_group": False}
    texts = draw(I.inputs_for(g, cfg, n=8, mutate=True))
    return {"g": g, "cfg": cfg, "inputs": texts}


def strategy(tier):
    return cases()


def positions(g):
    """rule -> attr -> number of syntactic assignment positions"""
    res = {}
    for r in g["rules"]:
        d = {}
        for e in G.walk(r["body"]):
            if e[0] == "asg":
                d[e[1]] = d.get(e[1], 0) + 1
        res[r["name"]] = d
    return res


def evaluate(case):
    from textx.exceptions import TextXError, TextXSemanticError, TextXSyntaxError

    out = Outcome()
    g, cfg = case["g"], case["cfg"]
    gtext = G.to_text(g)
    try:
        mm = c01.make_metamodel(g, cfg)
    except TextXError as e:
        return out.add("grammar_rejected", f"{gtext!r}: {e}")
    static = peg.mult_static(g)
    pos = positions(g)
    kinds = peg.kinds(g)
    out.sample = {"grammar": gtext, "inputs": case["inputs"][:3]}
    witness = {}  # (rule, attr) -> input that collected >= 2 values
    fired2 = falsy_first = False
    for text in case["inputs"]:
        res, it = peg.parse(g, cfg, text)
        if res[0] != "ok":
            continue
        for o in it.objs:
            for a, vals in it.collected.get(id(o), {}).items():
                if len(vals) >= 2:
                    witness.setdefault((o.cls, a), text)
                    if pos[o.cls].get(a, 0) >= 2:
                        fired2 = True
                if vals and pos[o.cls].get(a, 0) >= 2 and vals[0] in (0, "", False, 0.0):
                    falsy_first = True
        ctx = f"grammar={gtext!r} input={text!r}"
        try:
            model = mm.model_from_str(text)
        except TextXSyntaxError as e:
            out.add("accepted_input_rejected", ctx + f": {e}")
            continue
        except TextXSemanticError as e:
            if getattr(e, "err_type", None) == "Multiple assignments":
                out.add("multiple_assignments", ctx + f": {e}")
            else:
                out.add("semantic_error", ctx + f": {e}")
            continue
        if res[1] is None:
            continue
        a_, b_ = D.dump_textx(model), D.dump_ref(res[1])
        df = D.diff(a_, b_)
        if df:
            kind = df[0]
            if kind in ("list_vs_scalar",):
                out.add("value_trace/list_vs_scalar", ctx + f" at {df[1]}: textX {df[2]} reference")
            elif kind == "list_length":
                out.add("value_trace/lost_or_duplicated", ctx + f" at {df[1]}: textX {df[2]} reference")
            else:
                out.add("value_trace/" + kind, ctx + f" at {df[1]}: textX {df[2]} reference")
    # (a) multiplicity, two-sided
    undecided = 0
    for r in g["rules"]:
        if kinds[r["name"]] != "common":
            continue
        cls = mm[r["name"]]
        for a, cnt in static[r["name"]].items():
            is_list = cls._tx_attrs[a].mult in ("1..*", "0..*")
            if cnt <= 1 and is_list:
                out.add("multiplicity/list_but_at_most_one_value", f"grammar={gtext!r}: {r['name']}.{a} is {cls._tx_attrs[a].mult}")
            elif cnt >= 2 and not is_list:
                if (r["name"], a) in witness:
                    out.add("multiplicity/scalar_but_witness_collects_two",
                            f"grammar={gtext!r}: {r['name']}.{a} is {cls._tx_attrs[a].mult}; input {witness[(r['name'], a)]!r} "
                            f"assigns it twice in one object")
                else:
                    undecided += 1
    out.cls("undecided_multiplicity" if undecided else "multiplicity_decided")
    if fired2:
        out.cls("two_positions_fired")
    if falsy_first:
        out.cls("falsy_value_first")
    for k in sorted(G.constructs(g)):
        out.cls("construct:" + k)
    out.nontrivial = fired2 or falsy_first
    return out
