"""C29 - graph exports are well-formed for any model and metamodel.

Domain : (a) models of a fixed family of grammars that put STRING values in every kind of place the
         exporter treats differently - the 'name' attribute (of a named object, of the root), plain
         string attributes, lists of strings, lists mixing objects and primitive values (strings,
         ints, floats), INT-typed names, references by name - with the strings drawn from an alphabet
         of DOT-relevant characters (quote, apostrophe, backslash, braces, pipe, angle brackets,
         question mark, newline, tab, semicolon, brackets, ampersand, non-ASCII) and lengths on both
         sides of dot_repr's 20-character truncation; exported through model_export_to_file,
         model_export and the registered ('any','dot') generator.
         (b) metamodels of generated grammars (vt.gen.grammar: match rules with regular expressions
         and literals containing the same characters, abstract/common/match rules, references,
         multiplicities) exported through metamodel_export with the DOT and the PlantUML renderer and
         through the registered ('textX','dot') and ('textX','PlantUML') generators.
         (c) metamodels of a main grammar importing 1-2 grammar files (directly or as a chain
         main -> base -> ext) whose rule names come from a pool of three, so that namespaces define
         classes with the same short name; the expected class set is every class of every namespace.
Oracle : an independent DOT parser (vt.ref.dotparse, written from the Graphviz grammar) must accept
         the text; every model object (the root and all contained objects) has exactly one node
         statement whose id is id(obj), with a label; record labels have balanced unescaped braces and
         exactly the two top-level fields the exporter writes (name and attributes - an unescaped '|'
         of a value would inject fields); the first field ends in ':<class name>'.  Metamodel: exactly one node per common / abstract class with
         first label field 'Name' / '*Name'.  PlantUML: first directive @startuml, last @enduml,
         every 'class X ... {' closed by a line '}' before the next declaration, legend / end legend
         paired, every common and abstract class declared exactly once.  Graphviz itself
         (/usr/bin/dot -Tcanon, when installed) is run as a confirmation on a sample of outputs the
         reference parser accepted: it must accept them too.
"""
import io
import os
import re
import shutil
import subprocess
import tempfile

from hypothesis import strategies as st

from vt.gen import grammar as G
from vt.harness import Outcome, exc_bucket
from vt.ref import dotparse as D

ID = "C29"
LEVEL = "exploration"
CASES = {"quick": 2500, "thorough": 200000}
RULE = ("(a) models of the C29 grammar family with 1-6 items and strings over a 24-character alphabet of DOT-relevant "
        "characters (lengths 0-30), (b) metamodels of generated grammars (<= 5 rules). non-trivial: (a) some string value "
        "that reaches the export contains a character dot_escape treats, or a mixed list is present; (b) the metamodel has a "
        "match rule or an abstract class; (c) metamodels of a main grammar importing 1-2 files (directly or as a chain) with "
        "rule names from a pool of three; models may reference a builtin Holder object outside the containment tree. "
        "distinct by canonical JSON")
ASSUMPTIONS = [
    "file names contain no DOT-relevant characters (the cluster label of multi-file exports is not attacked)",
    "validity is decided by the reference DOT parser; Graphviz's own parser is only a confirmation when /usr/bin/dot exists",
    "record-label structure (balanced braces, two fields) is required because the exporter's nodes use shape=record",
]
LEVEL_TEXT = ("Generated models/metamodels, exported text parsed by an independent DOT grammar and structural PlantUML "
              "checker; node-per-object and label-structure oracles; Graphviz as confirmation.")
LEVEL_NOTE = "Trusts the reference DOT parser (vt/ref/dotparse.py) and the completeness of the character alphabet."
TECHNIQUE = "property-based testing (Hypothesis) with an independent DOT parser as validity oracle"
DESIGN_REF = "DESIGN.md section 4 C29"

ALPHABET = ['"', "'", "\\", "{", "}", "|", "<", ">", "?", "\n", "\t", ";", "[", "]", "&", "=", ":", "-", " ", "a", "B", "7", "é", "λ"]
SPECIAL = set('"\\{}|<>?\n')

GRAMMAR = r"""
Model: 'model' (name=STRING)? items*=Item;
Item: Named | Holder | Ref | Num | Bag;
Named: 'named' name=STRING ('=' val=STRING)? ('n' num=INT)? ('f' flt=FLOAT)? (flag?='flag')? ('tags' tags+=STRING[','])?;
Holder: 'holder' name=ID '[' values*=Value[','] ']';
Value: STRING | INT | Named;
Ref: 'ref' target=[Holder] ('also' others+=[Holder][','])?;
Num: 'num' name=INT label=STRING;
Bag: 'bag' things+=Thing[','];
Thing: FLOAT | BOOL | STRING | Num;
"""


def strings():
    short = st.lists(st.sampled_from(ALPHABET), min_size=0, max_size=6).map("".join)
    long = st.lists(st.sampled_from(ALPHABET), min_size=14, max_size=30).map("".join)
    return st.one_of(short, short, long)


@st.composite
def items(draw, holders):
    k = draw(st.integers(0, 9))
    if k < 4:
        it = {"k": "named", "name": draw(strings())}
        if draw(st.booleans()):
            it["val"] = draw(strings())
        if draw(st.booleans()):
            it["num"] = draw(st.integers(0, 10 ** 6))
        if draw(st.integers(0, 3)) == 0:
            it["flt"] = draw(st.integers(0, 999)) / 8
        it["flag"] = draw(st.booleans())
        if draw(st.booleans()):
            it["tags"] = draw(st.lists(strings(), min_size=1, max_size=3))
        return it
    if k < 7:
        name = "h%d" % len(holders)
        holders.append(name)
        vals = []
        for _ in range(draw(st.integers(0, 4))):
            v = draw(st.integers(0, 5))
            if v < 3:
                vals.append(draw(strings()))
            elif v < 4:
                vals.append(draw(st.integers(0, 999)))
            else:
                vals.append({"k": "named", "name": draw(strings()), "flag": False})
        return {"k": "holder", "name": name, "values": vals}
    if k < 8:
        # 'hext' is a builtin object of the metamodel (not contained in any model)
        pool = holders + ["hext"]
        return {"k": "ref", "target": draw(st.sampled_from(pool)),
                "others": draw(st.lists(st.sampled_from(pool), max_size=2))}
    if k < 9:
        return {"k": "num", "name": draw(st.integers(0, 99)), "label": draw(strings())}
    things = []
    for _ in range(draw(st.integers(1, 4))):
        v = draw(st.integers(0, 4))
        if v == 0:
            things.append(draw(st.integers(0, 99)) + 0.5)
        elif v == 1:
            things.append(draw(st.booleans()))
        elif v < 4:
            things.append(draw(strings()))
        else:
            things.append({"k": "num", "name": draw(st.integers(0, 99)), "label": draw(strings())})
    return {"k": "bag", "things": things}


@st.composite
def model_cases(draw):
    holders = []
    its = [draw(items(holders)) for _ in range(draw(st.integers(1, 6)))]
    return {"kind": "model", "name": draw(st.one_of(st.none(), strings())), "items": its,
            "via": draw(st.sampled_from(["to_file", "export", "generator"]))}


@st.composite
def mm_cases(draw):
    g = draw(G.grammars(max_rules=5))
    return {"kind": "metamodel", "g": g, "via": draw(st.sampled_from(["export", "generator"]))}


RULE_POOL = ["Item", "Thing", "Node"]


@st.composite
def import_cases(draw):
    """a main grammar importing 1-2 grammar files; rule names come from a small pool so that different namespaces
    define classes with the same short name"""
    files = []
    for fname in ["main"] + draw(st.sampled_from([["base"], ["base", "ext"]])):
        rules = []
        for rn in draw(st.lists(st.sampled_from(RULE_POOL), min_size=1, max_size=3, unique=True)):
            rules.append([rn, draw(st.sampled_from(["common", "common", "abstract", "match"]))])
        files.append([fname, rules])
    return {"kind": "metamodel_imports", "files": files, "chain": draw(st.booleans()),
            "via": draw(st.sampled_from(["export", "generator"]))}


def import_texts(case):
    files = dict((f, r) for f, r in case["files"])
    chain = case["chain"] and "ext" in files
    texts = {}
    for fname, rules in files.items():
        body = []
        for rn, kind in rules:
            if kind == "common":
                body.append(f"{rn}: '{fname}_{rn}' name=ID;")
            elif kind == "abstract":
                body.append(f"{rn}: {rn}A | {rn}B;\n{rn}A: '{fname}_{rn}_a' name=ID;\n{rn}B: '{fname}_{rn}_b' v=INT;")
            else:
                body.append(f"{rn}: /{fname}_{rn}\\w*/;")
        texts[fname] = "\n".join(body) + "\n"
    uses = [f"m{i}+={rn}*" for i, (rn, _) in enumerate(files["main"])]
    direct = [f for f in files if f != "main" and not (chain and f == "ext")]
    for f in direct:
        uses += [f"{f}{i}+={f}.{rn}*" for i, (rn, _) in enumerate(files[f])]
    head = "".join(f"import {f}\n" for f in direct)
    if chain:
        texts["base"] = "import ext\n" + texts["base"] + "BaseUse: 'baseuse' " + " ".join(
            f"e{i}+=ext.{rn}*" for i, (rn, _) in enumerate(files["ext"])) + ";\n"
        uses.append("bu+=base.BaseUse*")
    texts["main"] = head + "Model: 'model' " + " ".join(uses) + ";\n" + texts["main"]
    return texts


@st.composite
def cases(draw):
    k = draw(st.integers(0, 9))
    if k < 6:
        return draw(model_cases())
    if k < 8:
        return draw(mm_cases())
    return draw(import_cases())


def strategy(tier):
    return cases()


def q(s):
    """a textX STRING literal for s: only the delimiter can be escaped, a backslash is literal (so a value cannot end in
    a backslash - a blank is appended); the check reads the values back from the loaded model"""
    if s.endswith("\\"):
        s += " "
    return '"' + s.replace('"', '\\"') + '"'


def p_item(it):
    k = it["k"]
    if k == "named":
        s = "named " + q(it["name"])
        if "val" in it:
            s += " = " + q(it["val"])
        if "num" in it:
            s += " n %d" % it["num"]
        if "flt" in it:
            s += " f %r" % it["flt"]
        if it.get("flag"):
            s += " flag"
        if "tags" in it:
            s += " tags " + ", ".join(q(t) for t in it["tags"])
        return s
    if k == "holder":
        return "holder %s [ %s ]" % (it["name"], " , ".join(p_item(v) if isinstance(v, dict) else (q(v) if isinstance(v, str) else str(v))
                                                            for v in it["values"]))
    if k == "ref":
        return "ref " + it["target"] + (" also " + " , ".join(it["others"]) if it["others"] else "")
    if k == "num":
        return "num %d %s" % (it["name"], q(it["label"]))

    def thing(v):
        if isinstance(v, dict):
            return p_item(v)
        if isinstance(v, bool):
            return "true" if v else "false"
        if isinstance(v, str):
            return q(v)
        return repr(v)

    return "bag " + " , ".join(thing(v) for v in it["things"])


def model_text(case):
    return "model " + (q(case["name"]) + " " if case["name"] is not None else "") + "\n".join(p_item(i) for i in case["items"])


_MM = None
_DOT = shutil.which("dot") or ("/usr/bin/dot" if os.path.exists("/usr/bin/dot") else None)
_dot_runs = [0]


def family_mm():
    """the family's metamodel; Holder is a user class and one Holder object ('hext') is a builtin: a reference to it
    leads to an object outside the model's containment tree"""
    global _MM
    if _MM is None:
        from textx import metamodel_from_str

        class Holder:
            def __init__(self, parent=None, name=None, values=None):
                self.parent, self.name, self.values = parent, name, values if values is not None else []

            # value equality: all Holder objects compare equal - an exporter must tell objects apart by identity
            def __eq__(self, other):
                return type(other) is type(self)

            def __hash__(self):
                return 11

        _MM = metamodel_from_str(GRAMMAR, classes=[Holder], builtins={"hext": Holder(None, "hext", [])})
    return _MM


def graphviz_accepts(text):
    """(True|False|None, message) - None when Graphviz is unavailable"""
    if not _DOT:
        return None, ""
    try:
        r = subprocess.run([_DOT, "-Tcanon"], input=text.encode("utf-8"), capture_output=True, timeout=20)
    except Exception as e:  # noqa: BLE001
        return None, str(e)
    err = r.stderr.decode("utf-8", "replace")
    bad = r.returncode != 0 or "syntax error" in err or "bad label format" in err
    return (not bad), err.strip()[:300]


def culprit(strs, chars=SPECIAL):
    """which exported string place carries one of the characters (for bucketing)"""
    for place in ("name", "mixed_list_str", "attr", "list"):
        if any(chars & set(s) for p, s in strs if p == place):
            return place + "_with_special_chars"
    return "no_special_chars"


def obj_culprit(o):
    """for a malformed label of one object: its name if that carries a special character, else its other values"""
    name = getattr(o, "name", None)
    if isinstance(name, str) and SPECIAL & set(name):
        return "name_with_special_chars"
    return "attr_with_special_chars"


def check_dot_model(out, text, objs, strs):
    try:
        p = D.parse(text)
    except D.DotError as e:
        # only a quote or a backslash can break the token level of DOT
        out.add(f"model_dot_invalid/{culprit(strs, set(chr(34) + chr(92)))}", f"{e}; export:\n{text[190:1500]}")
        return None
    count = {}
    for nid, attrs in p.node_stmts:
        count[nid] = count.get(nid, 0) + (1 if "label" in attrs else 0)
    for o in objs:
        nid = str(id(o))
        if count.get(nid, 0) != 1:
            out.add("model_object_without_single_node", f"{type(o).__name__} has {count.get(nid, 0)} labelled node statements")
            continue
        lab = p.nodes[nid]["label"]
        if lab[0] != "str":
            continue
        label = lab[1]
        tag = obj_culprit(o)
        err = D.record_label_error(label)
        if err:
            out.add(f"record_label_malformed/{tag}", f"label {label!r}: {err}")
            continue
        nf = top_fields(label)
        if nf != 2:
            out.add(f"record_label_fields/{tag}", f"label {label!r} has {nf} top-level fields, expected 2 (name | attributes)")
        elif not D.first_field(label).endswith(":" + type(o).__name__):
            out.add(f"record_label_name_field/{tag}", f"label {label!r}: first field does not end in ':{type(o).__name__}'")
    # nodes that exist only as edge end points (primitive members of mixed lists) are drawn with the default record
    # shape and their own name as label: the name must be a well-formed record label too
    labelled = {nid for nid, attrs in p.node_stmts if "label" in attrs}
    for ends, _ in p.edges:
        for e in ends:
            if e is not None and e not in labelled and e.isdigit():
                # an object id used in an edge: the object (e.g. a referenced builtin) must have a node of its own
                out.add("edge_to_object_without_node", f"edge end {e} has no labelled node statement")
                continue
            if e is not None and e not in labelled:
                err = D.record_label_error(e)
                if err:
                    out.add("implicit_node_label_malformed/mixed_list_str_with_special_chars", f"node {e!r}: {err}")
    return p


def top_fields(label):
    """number of fields inside the outermost { } of a record label"""
    depth, n, i = 0, 1, 0
    while i < len(label):
        c = label[i]
        if c == "\\":
            i += 2
            continue
        if c == "{":
            depth += 1
        elif c == "}":
            depth -= 1
        elif c == "|" and depth == 1:
            n += 1
        i += 1
    return n


def eval_model(case, out):
    from textx import get_children
    from textx.export import model_export, model_export_to_file
    from textx.registration import generator_for_language_target

    mm = family_mm()
    src = model_text(case)
    out.sample = {"kind": "model", "via": case["via"], "text": src}
    try:
        model = mm.model_from_str(src)
    except Exception as e:  # noqa: BLE001
        out.inconclusive = "model_not_loaded:" + type(e).__name__
        return out
    objs = [model] + [o for o in get_children(lambda x: True, model) if o is not model]
    strs = []
    mixed = False
    for o in objs:
        for an, a in type(o)._tx_attrs.items():
            v = getattr(o, an, None)
            if isinstance(v, str):
                strs.append(("name" if an == "name" else "attr", v))
            elif isinstance(v, list):
                prim = [x for x in v if isinstance(x, (str, int, float, bool))]
                if prim and len(prim) != len(v):
                    mixed = True
                    strs += [("mixed_list_str", x) for x in prim if isinstance(x, str)]
                else:
                    strs += [("list", x) for x in prim if isinstance(x, str)]
    special = any(SPECIAL & set(s) for _, s in strs)
    out.nontrivial = special or mixed
    out.cls("via:" + case["via"])
    if mixed:
        out.cls("mixed_list")
    if special:
        out.cls("special_chars")
    if any(len(s) > 20 for p, s in strs if p != "name"):
        out.cls("truncated_value")
    tmp = None
    try:
        if case["via"] == "to_file":
            f = io.StringIO()
            model_export_to_file(f, model)
            text = f.getvalue()
        else:
            tmp = tempfile.mkdtemp(prefix="c29-")
            if case["via"] == "export":
                path = os.path.join(tmp, "m.dot")
                model_export(model, path)
            else:
                model._tx_filename = os.path.join(tmp, "m.fam")
                generator_for_language_target("any", "dot")(mm, model, tmp, True, False)
                path = os.path.join(tmp, "m.dot")
            with open(path, encoding="utf-8") as f:
                text = f.read()
    except Exception as e:  # noqa: BLE001
        out.add(exc_bucket(e, "model_export_raises"), f"{type(e).__name__}: {e}")
        return out
    finally:
        if tmp:
            shutil.rmtree(tmp, ignore_errors=True)
    p = check_dot_model(out, text, objs, strs)
    if p is not None and not out.disc:
        confirm(out, text, "model")
    return out


def confirm(out, text, what):
    _dot_runs[0] += 1
    if _dot_runs[0] % 5:
        return
    ok, msg = graphviz_accepts(text)
    if ok is None:
        out.cls("graphviz_unavailable")
    elif ok:
        out.cls("graphviz_confirmed")
    else:
        out.add(f"{what}_dot_rejected_by_graphviz", f"{msg}; export:\n{text[190:1500]}")


PU_CLASS = re.compile(r"^class (\S+) (?:<<(\w+)>> )?\s*\{$")


def check_plantuml(out, text, want):
    lines = [ln for ln in text.split("\n") if ln.strip()]
    if not lines or lines[0].strip() != "@startuml" or lines[-1].strip() != "@enduml":
        out.add("plantuml_not_delimited", f"first {lines[:1]!r} last {lines[-1:]!r}")
        return
    if sum(1 for ln in lines if ln.strip() in ("@startuml", "@enduml")) != 2:
        out.add("plantuml_not_delimited", "more than one @startuml/@enduml directive")
    declared = {}
    open_cls = None
    in_legend = False
    for ln in lines[1:-1]:
        s = ln.strip()
        if in_legend:
            if s == "end legend":
                in_legend = False
            continue
        if s == "legend":
            if open_cls:
                out.add("plantuml_unbalanced", f"legend inside class {open_cls}")
            in_legend = True
            continue
        m = PU_CLASS.match(ln)
        if m:
            if open_cls:
                out.add("plantuml_unbalanced", f"class {m.group(1)} opened inside class {open_cls}")
            open_cls = m.group(1)
            declared[open_cls] = declared.get(open_cls, 0) + 1
            continue
        if s == "}":
            if not open_cls:
                out.add("plantuml_unbalanced", "'}' without an open class")
            open_cls = None
            continue
        if s == "end legend":
            out.add("plantuml_unbalanced", "'end legend' without legend")
    if open_cls or in_legend:
        out.add("plantuml_unbalanced", f"unterminated {'legend' if in_legend else 'class ' + open_cls}")
    for fqn in want:
        if declared.get(fqn, 0) != 1:
            out.add("plantuml_class_not_declared_once", f"{fqn}: {declared.get(fqn, 0)} declarations")


def eval_metamodel(case, out):
    from textx import metamodel_from_str
    from textx.const import RULE_ABSTRACT, RULE_COMMON, RULE_MATCH
    from textx.exceptions import TextXError
    from textx.export import PlantUmlRenderer, metamodel_export
    from textx.lang import ALL_TYPE_NAMES
    from textx.registration import generator_for_language_target

    gdir = None
    try:
        if case["kind"] == "metamodel_imports":
            from textx import metamodel_from_file

            gdir = tempfile.mkdtemp(prefix="c29g-")
            texts = import_texts(case)
            for fname, text in texts.items():
                with open(os.path.join(gdir, fname + ".tx"), "w", encoding="utf-8") as f:
                    f.write(text)
            out.sample = {"kind": "metamodel_imports", "via": case["via"], "grammars": texts}
            mm = metamodel_from_file(os.path.join(gdir, "main.tx"))
            out.cls("mm_imports")
            short = [c.__name__ for ns in mm.namespaces.values() for c in ns.values() if c.__name__ not in ALL_TYPE_NAMES]
            if len(short) != len(set(short)):
                out.cls("mm_same_short_name_in_two_namespaces")
        else:
            gtext = G.to_text(case["g"])
            out.sample = {"kind": "metamodel", "via": case["via"], "grammar": gtext}
            mm = metamodel_from_str(gtext)
    except TextXError as e:
        out.inconclusive = "grammar_rejected:" + type(e).__name__
        return out
    finally:
        if gdir:
            shutil.rmtree(gdir, ignore_errors=True)
    # every class of every namespace of the metamodel (not the exporter's own iteration)
    classes = []
    for ns in mm.namespaces.values():
        for c in ns.values():
            if c.__name__ not in ALL_TYPE_NAMES and c not in classes:
                classes.append(c)
    want = [c for c in classes if c._tx_type in (RULE_COMMON, RULE_ABSTRACT)]
    has_match = any(c._tx_type == RULE_MATCH for c in classes)
    out.nontrivial = has_match or any(c._tx_type == RULE_ABSTRACT for c in classes)
    out.cls("mm_via:" + case["via"])
    if has_match:
        out.cls("mm_match_rules")
    tmp = tempfile.mkdtemp(prefix="c29-")
    try:
        if case["via"] == "export":
            metamodel_export(mm, os.path.join(tmp, "g.dot"))
            metamodel_export(mm, os.path.join(tmp, "g.pu"), renderer=PlantUmlRenderer())
        else:
            mm.file_name = os.path.join(tmp, "g.tx")
            tx = None
            generator_for_language_target("textX", "dot")(tx, mm, tmp, True, False)
            generator_for_language_target("textX", "PlantUML")(tx, mm, tmp, True, False)
        with open(os.path.join(tmp, "g.dot"), encoding="utf-8") as f:
            dot = f.read()
        with open(os.path.join(tmp, "g.pu"), encoding="utf-8") as f:
            pu = f.read()
    except Exception as e:  # noqa: BLE001
        out.add(exc_bucket(e, "metamodel_export_raises"), f"{type(e).__name__}: {e}")
        return out
    finally:
        shutil.rmtree(tmp, ignore_errors=True)
    try:
        p = D.parse(dot)
    except D.DotError as e:
        out.add("metamodel_dot_invalid", f"{e}; export:\n{dot[190:1500]}")
        p = None
    if p is not None:
        firsts = {}
        for nid, attrs in p.node_stmts:
            lab = attrs.get("label")
            if lab and lab[0] == "str":
                err = D.record_label_error(lab[1])
                if err:
                    out.add("metamodel_record_label_malformed", f"label {lab[1]!r}: {err}")
                ff = D.first_field(lab[1])
                firsts[ff] = firsts.get(ff, 0) + 1
        names = {}
        for c in want:
            key = ("*" if c._tx_type == RULE_ABSTRACT else "") + c.__name__
            names[key] = names.get(key, 0) + 1
        for key, n in names.items():
            if firsts.get(key, 0) != n:
                out.add("metamodel_class_without_single_node", f"{key}: {firsts.get(key, 0)} nodes for {n} classes")
        if not out.disc:
            confirm(out, dot, "metamodel")
    check_plantuml(out, pu, [c._tx_fqn for c in want])
    return out


def evaluate(case):
    out = Outcome()
    if case["kind"] == "model":
        return eval_model(case, out)
    return eval_metamodel(case, out)


def evidence_extra(tier):
    return {"graphviz": _DOT or "not installed"}
