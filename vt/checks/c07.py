"""C07 - default reference resolution finds the unique matching object.

Domain : generated trees of named objects of related classes (a diamond: Base: Left | Right;
         Left: A | S; Right: S | B; unrelated Other;
         nested Group, which is named too), names from a pool of 4 (duplicates across and within
         classes are frequent), references to abstract Base, concrete A, Other, in single and
         list attributes, dangling names, a builtins dict with conforming / non-conforming objects.
Oracle : reference resolver on the generated tree: candidates = contained objects with that name
         whose class conforms; 1 -> that object (identity); 0 -> builtins entry if present and
         conforming, else 'Unknown object' TextXSemanticError; >=2 -> error saying the name is not
         unique.  The first failing reference in textual order decides the error.
"""
from hypothesis import strategies as st

from vt.gen.writer import GAPS_COMMENT, Writer, layouts
from vt.harness import Outcome

ID = "C07"
LEVEL = "exploration"
CASES = {"quick": 5000, "thorough": 250000}
RULE = ("generated trees (depth<=3, <=12 elements) over Group/A/B/Other with names from {x,y,z,w}, references "
        "[Base] [A] [Other] single and list valued with names from the pool plus a dangling name, builtins dict "
        "(0-3 entries, A or Other instances), random layout with comments. non-trivial: some referenced name exists on "
        ">=2 objects of which exactly one conforms, or the builtins fallback or an error path is taken; distinct by "
        "canonical JSON"
        " the class family is a diamond (Base: Left|Right; Left: A|S; Right: S|B) with references to Left and Right as well")
ASSUMPTIONS = [
    "the default provider searches the whole model (multi_metamodel_support default)",
    "when several references fail, the first one in textual order is reported",
    "builtins are instances of user classes registered for rules A and Other (the documented way to build builtins)",
]
LEVEL_TEXT = ("Generated models compared with an independent plain-name resolver evaluated on the generator's own tree "
              "(identity of targets, error kind and name).")
LEVEL_NOTE = "Trusts the reference resolver (candidates by name and conformance) and the tree kept by the generator."
TECHNIQUE = "property-based testing (Hypothesis) against a reference resolver on the generated model tree"
DESIGN_REF = "DESIGN.md section 4, C07"

GRAMMAR = r"""
Model: elems*=Elem;
Elem: Group | A | B | S | Other | Reg | RefBase | RefA | RefO | RefL | RefLeft | RefRight | RefReg;
Group: 'group' name=ID '{' elems*=Elem '}';
Base: Left | Right;
Left: A | S;
Right: S | B;
A: 'a' name=ID;
B: 'b' name=ID;
S: 's' name=ID;
RefLeft: 'refleft' r=[Left];
RefRight: 'refright' r=[Right];
Reg: 'reg' name=INT;
RefReg: 'refreg' r=[Reg|INT];
Other: 'other' name=ID;
RefBase: 'refbase' r=[Base];
RefA: 'refa' r=[A];
RefO: 'refo' r=[Other];
RefL: 'refs' l+=[Base][','];
Comment: /\/\/.*?$/ | /\/\*(.|\n)*?\*\//;
"""
NAMES = ["x", "y", "z", "w"]
REFNAMES = NAMES + ["q"]
# Base is the top of a diamond: S is reachable through Left and through Right
# Reg objects are named by integers (0 is a falsy name)
CONFORMS = {"Reg": {"Reg"}, "Base": {"A", "B", "S"}, "Left": {"A", "S"}, "Right": {"S", "B"}, "A": {"A"}, "Other": {"Other"}}


def elems(depth):
    name = st.sampled_from(NAMES)
    # a reference name is an int: < 12 picks the name of an object present in the model (document order,
    # modulo), otherwise a pool name (possibly dangling)
    rname = st.integers(0, 16)
    leaf = st.one_of(
        st.tuples(st.sampled_from(["A", "B", "Other", "A", "B", "S"]), name).map(lambda t: {"k": t[0], "name": t[1]}),
        st.sampled_from(["0", "0", "1", "7"]).map(lambda n: {"k": "Reg", "name": n}),
        st.sampled_from(["0", "0", "1", "7", "9"]).map(lambda n: {"k": "RefReg", "num": n}),
        st.tuples(st.sampled_from(["RefBase", "RefA", "RefO", "RefBase", "RefLeft", "RefRight"]), rname).map(lambda t: {"k": t[0], "ref": t[1]}),
        st.lists(rname, min_size=1, max_size=3).map(lambda l: {"k": "RefL", "refs": l}),
    )
    if depth == 0:
        return leaf
    grp = st.tuples(name, st.lists(elems(depth - 1), max_size=4)).map(lambda t: {"k": "Group", "name": t[0], "elems": t[1]})
    return st.one_of(leaf, leaf, leaf, grp)


def strategy(tier):
    return st.fixed_dictionaries({
        "elems": st.lists(elems(2), min_size=1, max_size=6),
        "builtins": st.lists(st.tuples(st.sampled_from(REFNAMES), st.sampled_from(["A", "Other"])).map(list), max_size=3,
                             unique_by=lambda t: t[0]),
        "layout": layouts(),
    })


def write(case):
    w = Writer(case["layout"], GAPS_COMMENT)
    objs = []  # named objects in document order: (path, kind, name)
    refs = []  # (path, target rule, name, attr, index, offset)
    present = []

    def collect(e):
        if "name" in e and e["k"] != "Reg":
            present.append(e["name"])
        for c in e.get("elems", []):
            collect(c)

    for e in case["elems"]:
        collect(e)

    def rn(n):
        if n < 12 and present:
            return present[n % len(present)]
        return REFNAMES[n % len(REFNAMES)]

    def go(e, path):
        k = e["k"]
        if k == "Group":
            w.tok("group")
            w.tok(e["name"])
            objs.append((path, "Group", e["name"]))
            w.tok("{")
            for i, c in enumerate(e["elems"]):
                go(c, path + (i,))
            w.tok("}")
        elif k in ("A", "B", "S", "Other"):
            w.tok(k.lower())
            w.tok(e["name"])
            objs.append((path, k, e["name"]))
        elif k == "Reg":
            w.tok("reg")
            w.tok(e["name"])
            objs.append((path, "Reg", e["name"]))
        elif k == "RefReg":
            w.tok("refreg")
            off = w.tok(e["num"])
            refs.append((path, "Reg", e["num"], "r", None, off))
        elif k == "RefL":
            w.tok("refs")
            for j, n in enumerate(e["refs"]):
                if j:
                    w.tok(",")
                off = w.tok(rn(n))
                refs.append((path, "Base", rn(n), "l", j, off))
        else:
            kw, rule = {"RefBase": ("refbase", "Base"), "RefA": ("refa", "A"), "RefO": ("refo", "Other"),
                        "RefLeft": ("refleft", "Left"), "RefRight": ("refright", "Right")}[k]
            w.tok(kw)
            off = w.tok(rn(e["ref"]))
            refs.append((path, rule, rn(e["ref"]), "r", None, off))

    for i, e in enumerate(case["elems"]):
        go(e, (i,))
    return w.text(), objs, refs


_CLS = None


def _classes():
    global _CLS
    if _CLS is None:
        class A:  # noqa: N801
            def __init__(self, parent=None, name=None):
                self.parent, self.name = parent, name

        class Other:
            def __init__(self, parent=None, name=None):
                self.parent, self.name = parent, name

        _CLS = (A, Other)
    return _CLS


def evaluate(case):
    from textx import metamodel_from_str
    from textx.exceptions import TextXSemanticError

    out = Outcome()
    text, objs, refs = write(case)
    A, Other = _classes()
    builtins = {n: (A if k == "A" else Other)(None, n) for n, k in case["builtins"]}
    bkind = {n: k for n, k in case["builtins"]}
    mm = metamodel_from_str(GRAMMAR, classes=[A, Other], builtins=builtins)

    # reference resolver on the generator's tree
    expected = []  # per reference: ("obj", path) | ("builtin", name) | ("unknown", name, rule) | ("notunique", name)
    nt = False
    for path, rule, name, attr, idx, off in refs:
        same_name = [o for o in objs if o[2] == name]
        cands = [o for o in same_name if o[1] in CONFORMS[rule]]
        if len(cands) == 1:
            expected.append(("obj", cands[0][0]))
            if len(same_name) >= 2:
                nt = True
        elif len(cands) == 0:
            if name in bkind and bkind[name] in CONFORMS[rule]:
                expected.append(("builtin", name))
            else:
                expected.append(("unknown", name, rule))
            nt = True
        else:
            expected.append(("notunique", name))
            nt = True
    first_err = next((e for e in expected if e[0] in ("unknown", "notunique")), None)
    out.nontrivial = nt and bool(refs)
    out.cls("expect_error:" + (first_err[0] if first_err else "none"), f"refs={min(len(refs), 5)}")
    for e in expected:
        out.cls("ref:" + e[0])
    out.sample = {"text": text, "builtins": case["builtins"]}

    try:
        m = mm.model_from_str(text)
    except TextXSemanticError as e:
        if first_err is None:
            return out.add("unexpected_error", f"{out.sample}: {e}")
        msg = e.message
        if first_err[0] == "unknown":
            if e.err_type != "Unknown object" or f'"{first_err[1]}"' not in msg:
                return out.add("error/expected_unknown_object", f"{out.sample}: expected unknown {first_err[1:]}, got "
                               f"err_type={e.err_type!r} {msg!r}")
        else:
            if "not unique" not in msg or first_err[1] not in msg:
                return out.add("error/expected_not_unique", f"{out.sample}: expected not unique {first_err[1]}, got {msg!r}")
        return out
    if first_err is not None:
        return out.add(f"accepted/expected_{first_err[0]}", f"{out.sample}: expected error for {first_err[1:]}")

    def at(path):
        o = m
        for i in path:
            o = o.elems[i]
        return o

    for (path, rule, name, attr, idx, off), exp in zip(refs, expected):
        holder = at(path)
        got = holder.r if attr == "r" else holder.l[idx]
        want = at(exp[1]) if exp[0] == "obj" else builtins[exp[1]]
        if got is not want:
            return out.add(f"target/{exp[0]}/{'list' if attr == 'l' else 'single'}",
                           f"{out.sample}: reference {name!r} to {rule} at {off}: expected {exp}, got {got!r}")
    return out
