"""C32 - scope provider selection follows the documented precedence.

Domain (finite, enumerated completely): every subset of the nine registration keys
  {A.r, A.l, B.r, B.l, *.r, *.l, A.*, B.*, *.*} x grammar RREL on {no attribute, A.r, B.l}
  x providers given as distinguishable callables / as RREL strings x rule B generic / user class.
  Each model holds an A and a B object, each with a single reference r and a list reference l;
  A's references use a dotted match rule, B's a match rule with split='/'.
Oracle : per reference: grammar RREL if present, else the first registered key among
  Rule.attr, *.attr, Rule.*, *.*, else the default provider.  Every key's provider (callable or RREL
  string) and the grammar RREL lead to a different container, so the resolved target identifies the
  provider used; for callables the call log must show exactly that provider for that reference.
"""
import itertools

from vt.harness import Outcome

ID = "C32"
LEVEL = "exploration"
CASES = {"quick": 0, "thorough": 0}
KEYS = ["A.r", "A.l", "B.r", "B.l", "*.r", "*.l", "A.*", "B.*", "*.*"]
RULE = ("complete enumeration: 512 key subsets x 3 grammar-RREL placements x {callable, RREL string} x {B generic, B user "
        "class} = 6144 configurations, one model with 2 objects x (1 single + 2 list) references each. non-trivial: >=2 keys "
        "registered that apply to the same reference, or a grammar RREL competing with a registered key; distinct by "
        "canonical JSON"
        " plus 920 re-registration sequences (load, register_scope_providers with another key set, load)")
ASSUMPTIONS = [
    "a registered callable may return any object of the target type; the harness' providers ignore the name",
    "keys for another rule must not influence a reference (both rules are present in every model)",
]
LEVEL_TEXT = ("Complete enumeration of the finite configuration space stated in the property (all key subsets x grammar RREL "
              "x provider form x user class); the resolved target and the provider call log are compared with the "
              "documented precedence.")
LEVEL_NOTE = "Trusts the precedence table written from the documentation and distinguishable providers as observation."
TECHNIQUE = "exhaustive configuration enumeration with recording scope providers (reference precedence table as oracle)"
DESIGN_REF = "DESIGN.md section 4, C32"

CONTS = [f"c{i}" for i in range(len(KEYS))] + ["cg"]


def grammar(gr):
    def ref(rule, attr, mr):
        if gr == f"{rule}.{attr}":
            return f"[Def:{mr}|'cg'~conts.subs.defs]"
        return f"[Def:{mr}]"

    return f"""
Model: conts+=Cont extra=Def a=A b=B;
Cont: 'cont' name=ID '{{' subs+=Sub '}}';
Sub: 'sub' name=ID '{{' defs+=Def '}}';
Def: 'def' name=ID;
A: 'a' name=ID 'r' r={ref('A', 'r', 'FQN')} 'l' l+={ref('A', 'l', 'FQN')}[','];
B: 'b' name=ID 'r' r={ref('B', 'r', 'PATH')} 'l' l+={ref('B', 'l', 'PATH')}[','];
FQN: ID('.'ID)*;
PATH[split='/']: ID('/'ID)*;
"""


def enumerate_cases(tier):
    for bits in range(1 << len(KEYS)):
        keys = [k for i, k in enumerate(KEYS) if bits >> i & 1]
        for gr in (None, "A.r", "B.l"):
            for form in ("callable", "rrel"):
                for uc in (False, True):
                    yield {"keys": keys, "gr": gr, "form": form, "userclass": uc}
    # a provider that finds nothing: the first registered key decides alone - a less specific key that could resolve
    # the name must not be asked
    chain = ["A.r", "*.r", "A.*", "*.*"]
    for i, k1 in enumerate(chain):
        for k2 in chain[i + 1:]:
            yield {"keys": [k1, k2], "none_key": k1, "gr": None, "form": "callable", "userclass": False}
    # re-registration on the same metamodel object: a model is loaded, register_scope_providers is called again with
    # another set of keys (it replaces the set), another model is loaded
    small = [[]] + [[k] for k in KEYS] + [list(p) for p in itertools.combinations(KEYS, 2)]
    for k1 in [[]] + [[k] for k in KEYS]:
        for k2 in small:
            if k1 != k2:
                for form in ("callable", "rrel"):
                    yield {"keys": k1, "keys2": k2, "gr": None, "form": form, "userclass": False}


def expected_key(case, rule, attr):
    if case["gr"] == f"{rule}.{attr}":
        return "grammar"
    for k in (f"{rule}.{attr}", f"*.{attr}", f"{rule}.*", "*.*"):
        if k in case["keys"]:
            return k
    return "default"


def evaluate(case):
    from textx import metamodel_from_str
    from textx.exceptions import TextXError

    out = Outcome()
    rounds = [case["keys"]] + ([case["keys2"]] if "keys2" in case else [])
    mm_holder = {}
    for rno, keys_now in enumerate(rounds):
        res = eval_round(out, dict(case, keys=keys_now), mm_holder, rno)
        if res is not None or out.disc:
            break
    if "keys2" in case:
        out.cls("reregistration")
        out.nontrivial = True
    return out


def eval_round(out, case, mm_holder, rno):
    from textx import metamodel_from_str
    from textx.exceptions import TextXError

    exp = {(r, a): expected_key(case, r, a) for r in "AB" for a in "rl"}
    applicable = {(r, a): [k for k in (f"{r}.{a}", f"*.{a}", f"{r}.*", "*.*") if k in case["keys"]] for r, a in exp}
    out.nontrivial = any(len(v) >= 2 for v in applicable.values()) or (
        case["gr"] is not None and bool(applicable[tuple(case["gr"].split("."))]))
    out.cls(f"nkeys={len(case['keys'])}", f"gr={case['gr']}", f"form={case['form']}", f"userclass={case['userclass']}")
    classes = []
    if case["userclass"]:
        class B:  # noqa: N801
            def __init__(self, parent=None, name=None, r=None, l=None):  # noqa: E741
                self.parent, self.name, self.r, self.l = parent, name, r, l

        classes = [B]
    mm = mm_holder.get("mm")
    if mm is None:
        mm = mm_holder["mm"] = metamodel_from_str(grammar(case["gr"]), classes=classes)
    log = []
    sfx = "/after_reregistration" if rno else ""

    def mk(key):
        idx = KEYS.index(key)
        if case["form"] == "rrel":
            return f"'c{idx}'~conts.subs.defs"

        def provider(obj, attr, obj_ref):
            from textx import get_model

            log.append((type(obj).__name__, attr.name, obj_ref.position, key))
            if case.get("none_key") == key:
                return None
            return get_model(obj).conts[idx].subs[0].defs[0]

        return provider

    mm.register_scope_providers({k: mk(k) for k in case["keys"]})

    def text_for(rule, attr):
        if exp[(rule, attr)] == "default":
            return "u"
        return "s.t" if rule == "A" else "s/t"

    src = "".join(f"cont {c} {{ sub s {{ def t }} }}\n" for c in CONTS) + "def u\n"
    src += f"a a1 r {text_for('A', 'r')} l {text_for('A', 'l')} , {text_for('A', 'l')}\n"
    src += f"b b1 r {text_for('B', 'r')} l {text_for('B', 'l')} , {text_for('B', 'l')}\n"
    out.sample = {"keys": case["keys"], "grammar_rrel": case["gr"], "form": case["form"], "model_tail": src.splitlines()[-2:]}
    if case.get("none_key"):
        out.cls("provider_returns_none")
        out.nontrivial = True
        try:
            mm.model_from_str(src)
        except TextXError as e:
            if getattr(e, "err_type", None) != "Unknown object":
                return out.add("none_provider/other_error", f"{out.sample}: {e}")
            return None
        return out.add("none_provider/resolved_by_a_less_specific_key", f"{out.sample}: the provider registered for "
                       f"{case['none_key']} returns None, yet the model loads")
    try:
        m = mm.model_from_str(src)
    except TextXError as e:
        return out.add("load_failed/" + case["form"] + sfx, f"{out.sample}: {e}")
    conts = {c.name: c for c in m.conts}

    def target(k):
        if k == "default":
            return m.extra
        if k == "grammar":
            return conts["cg"].subs[0].defs[0]
        return conts[f"c{KEYS.index(k)}"].subs[0].defs[0]

    def who(o):
        if o is m.extra:
            return "default(u)"
        for c in m.conts:
            if o is c.subs[0].defs[0]:
                return "grammar" if c.name == "cg" else KEYS[int(c.name[1:])]
        return repr(o)

    for (rule, attr), k in sorted(exp.items()):
        obj = m.a if rule == "A" else m.b
        vals = [obj.r] if attr == "r" else list(obj.l)
        want = target(k)
        n = 1 if attr == "r" else 2
        if len(vals) != n or any(v is not want for v in vals):
            kind = "list" if attr == "l" else "single"
            return out.add(f"precedence/{case['form']}/{kind}/expected={k.replace(rule, 'Rule')}{sfx}",
                           f"{out.sample}: {rule}.{attr} expected provider {k}, resolved through {[who(v) for v in vals]}")
        if case["form"] == "callable":
            called = sorted({e[3] for e in log if e[0] == rule and e[1] == attr})
            want_calls = [] if k in ("default", "grammar") else [k]
            if called != want_calls:
                return out.add(f"calls/expected={k.replace(rule, 'Rule')}{sfx}",
                               f"{out.sample}: {rule}.{attr} providers called {called}, expected {want_calls}")
    return None
