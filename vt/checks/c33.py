"""C33 - errors raised by processors carry the location of the processed text.

Domain : generated package trees (nested packages, classes with an optional INT value and an optional
         user-match-rule tag, notes; items stored in an attribute typed by an abstract rule) with
         generated layout; one failing processor per case: on the k-th object of a rule (own rule or
         the abstract declared rule) or on the k-th match (base type INT / user match rule), raising
         TextXError / TextXSemanticError without location, with full location, with partial location,
         or an arbitrary exception through textxerror_wrap; loads from strings and from files.
Oracle : the load fails with a TextXError; filename == the model file (None for strings); (line, col)
         == independent line/column of the start offset of the processed object / match (recorded
         by the text writer); object processors: nchar == length of the object's text; fields the
         processor supplied itself are unchanged.
"""
import os
import shutil
import tempfile

from hypothesis import strategies as st

from vt.gen.writer import GAPS_COMMENT, Writer, layouts, linecol
from vt.harness import Outcome

ID = "C33"
LEVEL = "exploration"
CASES = {"quick": 3000, "thorough": 150000}
TARGETS = ["own:Cls", "own:Note", "own:Package", "declared:Item", "match:INT", "match:Tag", "match:Ver", "match:Minor"]
STYLES = ["plain", "semantic", "full", "partial", "wrapped", "full_semantic", "full_syntax"]
RULE = ("generated package trees (depth<=3) x target kind (own rule Cls/Note/Package, abstract declared rule Item, base type "
        "INT, user match rule Tag) x index k of the failing call x raise style (5) x string/file load x generated layout. "
        "non-trivial: the failing object/match is nested (depth >= 2) and not on line 1; processors raise TextXError / TextXSemanticError / TextXSyntaxError with none, part or all of the location; distinct by canonical JSON")
ASSUMPTIONS = [
    "textxerror_wrap is applied to object processors (for match processors the plain exception styles are used)",
    "the processed text of a match is the matched token, of an object its span from first to last token",
]
LEVEL_TEXT = ("Generated models with one failing processor; the reported location is compared with offsets recorded by the "
              "text writer and an independent line/column computation.")
LEVEL_NOTE = "Trusts the writer's recorded spans and the order of processor calls only through the k-th *visible* call."
TECHNIQUE = "property-based testing + fault injection (Hypothesis) at recorded offsets"
DESIGN_REF = "DESIGN.md section 4 C33"

GRAMMAR = r"""
Model: packages*=Package;
Package: 'package' name=ID '{' (packages+=Package | items+=Item)* '}';
Item: Cls | Note;
Cls: 'class' name=ID ('=' val=INT)? ('@' tag=Tag)? ('v' ver=Ver)?;
Note: 'note' name=ID text=STRING;
Tag: /#[a-z]+/;
Ver: Major '.' Minor;
Major: /\d+/;
Minor: /\d+/;
Comment: /\/\/.*?$/ | /\/\*(.|\n)*?\*\//;
"""
_MM_TEXT = GRAMMAR


def _item():
    return st.one_of(
        st.fixed_dictionaries({"k": st.just("Cls"), "val": st.one_of(st.none(), st.integers(0, 99)),
                               "tag": st.one_of(st.none(), st.sampled_from(["#a", "#tag"])),
                               "ver": st.one_of(st.none(), st.sampled_from(["3.14", "10.2"]))}),
        st.fixed_dictionaries({"k": st.just("Note")}))


def _pkg(depth):
    kid = _item()
    if depth > 0:
        kid = st.one_of(kid, kid, _pkg(depth - 1))
    return st.fixed_dictionaries({"k": st.just("Package"), "kids": st.lists(kid, min_size=1, max_size=4)})


@st.composite
def cases(draw):
    return {"packages": draw(st.lists(_pkg(2), min_size=1, max_size=2)), "layout": draw(layouts()),
            "target": draw(st.sampled_from(TARGETS)), "k": draw(st.integers(0, 6)), "style": draw(st.sampled_from(STYLES)),
            "from_file": draw(st.booleans())}


def strategy(tier):
    return st.one_of(cases(), cases(), cases(), cases(), imported_cases(), group_cases())


def build(case):
    """returns text, events: list of (kind, start, end, depth) in document order for objects and matches"""
    w = Writer(case["layout"], GAPS_COMMENT)
    objs, matches = [], []
    counter = [0]

    def emit(e, depth):
        counter[0] += 1
        key = counter[0]
        w.begin(key)
        rec = {"kind": e["k"], "depth": depth}
        if e["k"] == "Package":
            w.tok("package")
            w.tok(f"p{key}")
            w.tok("{")
            for k in e["kids"]:
                emit(k, depth + 1)
            w.tok("}")
        elif e["k"] == "Cls":
            w.tok("class")
            w.tok(f"c{key}")
            if e["val"] is not None:
                w.tok("=")
                s = w.tok(str(e["val"]))
                matches.append({"kind": "INT", "start": s, "end": s + len(str(e["val"])), "depth": depth})
            if e["tag"] is not None:
                w.tok("@")
                s = w.tok(e["tag"])
                matches.append({"kind": "Tag", "start": s, "end": s + len(e["tag"]), "depth": depth})
            if e.get("ver") is not None:
                w.tok("v")
                s = w.tok(e["ver"])
                dot = e["ver"].index(".")
                # a composite match rule: the minor part starts after the dot (processed before the whole match)
                matches.append({"kind": "Minor", "start": s + dot + 1, "end": s + len(e["ver"]), "depth": depth})
                matches.append({"kind": "Ver", "start": s, "end": s + len(e["ver"]), "depth": depth})
        else:
            w.tok("note")
            w.tok(f"n{key}")
            w.tok('"txt"')
        w.end(key)
        rec["start"], rec["end"] = w.spans[key]
        objs.append(rec)

    for p in case["packages"]:
        emit(p, 1)
    return w.text(), objs, matches


class Stop(Exception):
    pass


def evaluate(case):
    if case.get("kind") == "imported":
        return eval_imported(case)
    if case.get("kind") == "group":
        return eval_group(case)
    from textx import metamodel_from_str
    from textx.exceptions import TextXError, TextXSemanticError, TextXSyntaxError
    from textx.model import textxerror_wrap

    out = Outcome()
    text, objs, matches = build(case)
    tkind, tname = case["target"].split(":")
    style = case["style"]
    if tkind == "match" and style == "wrapped":
        style = "plain"
    if tkind == "match":
        cands = [m for m in matches if m["kind"] == tname]
    elif tkind == "declared":
        cands = [o for o in objs if o["kind"] in ("Cls", "Note")]
    else:
        cands = [o for o in objs if o["kind"] == tname]
    if not cands:
        out.inconclusive = "no_candidate"
        return out
    k = case["k"] % len(cands)
    # processors are called bottom-up / in parse order: the k-th call is identified by the object's position
    seen = []

    def fail(msg="rejected by the harness"):
        if style == "plain":
            raise TextXError(msg)
        if style == "semantic":
            raise TextXSemanticError(msg)
        if style == "full":
            raise TextXError(msg, line=77, col=5, filename="given.txt", nchar=3)
        if style == "full_semantic":
            raise TextXSemanticError(msg, line=77, col=5, filename="given.txt", nchar=3)
        if style == "full_syntax":
            raise TextXSyntaxError(msg, line=77, col=5, filename="given.txt", nchar=3)
        if style == "partial":
            raise TextXError(msg, line=77)
        raise ValueError(msg)

    target = cands[k]

    def obj_proc(o):
        if o._tx_position == target["start"] and type(o).__name__ == target["kind"]:
            fail()

    def match_proc(v):
        seen.append(v)
        if len(seen) - 1 == k:
            fail()
        return v

    if tkind == "match":
        # matches are processed in parse order = document order
        target = cands[k]
    mm = metamodel_from_str(GRAMMAR)
    procs = {}
    if tkind == "match":
        procs[tname] = (lambda v: int(match_proc(v))) if tname == "INT" else match_proc
    else:
        p = textxerror_wrap(obj_proc) if style == "wrapped" else obj_proc
        procs[tname] = p
    mm.register_obj_processors(procs)
    tmp = None
    fname = None
    err = None
    try:
        try:
            if case["from_file"]:
                tmp = tempfile.mkdtemp(prefix="vt-c33-")
                fname = os.path.join(tmp, "m.model")
                with open(fname, "w", newline="") as f:
                    f.write(text)
                mm.model_from_file(fname)
            else:
                mm.model_from_str(text)
        except TextXError as e:
            err = e
        except ValueError as e:
            return out.add("wrapped_exception_escaped", f"{case['target']} style={style}: {e}")
    finally:
        if tmp:
            shutil.rmtree(tmp, ignore_errors=True)
    ctx = f"target={case['target']} k={k} style={style} from_file={case['from_file']} text={text!r}"
    el, ec = linecol(text, target["start"])
    out.cls("target:" + case["target"], "style:" + style, "file" if case["from_file"] else "string")
    out.nontrivial = target["depth"] >= 2 and el >= 2
    out.sample = {"text": text, "target": case["target"], "k": k, "style": style, "expected": [el, ec]}
    if err is None:
        return out.add("no_error", ctx)
    want = {"line": el, "col": ec, "filename": fname, "nchar": (target["end"] - target["start"]) if tkind != "match" else None}
    if style.startswith("full"):
        want = {"line": 77, "col": 5, "filename": "given.txt", "nchar": 3}
    if style == "partial":
        want["line"] = 77
    got = {"line": err.line, "col": err.col, "filename": err.filename, "nchar": err.nchar}
    for f in ("line", "col", "filename", "nchar"):
        if f == "nchar" and tkind == "match":
            continue
        if got[f] != want[f]:
            kept = (style.startswith("full") or style == "partial") and (style.startswith("full") or f == "line")
            b = f"supplied_{f}_changed" if kept else f"{f}/{tkind}"
            out.add(b, ctx + f": {f} is {got[f]!r}, expected {want[f]!r} ({err})")
    return out


# -- processors failing on objects of an imported model ----------------------------------------------------------------
IMP_GRAMMAR = r"""
Model: imports*=Import items*=Item;
Import: 'import' importURI=STRING;
Item: 'item' name=ID;
"""


@st.composite
def imported_cases(draw):
    return {"kind": "imported", "lib_items": draw(st.integers(1, 4)), "main_items": draw(st.integers(0, 3)),
            "where": draw(st.sampled_from(["lib", "lib", "main"])), "k": draw(st.integers(0, 3)),
            "gaps": draw(st.lists(st.sampled_from([" ", "\n", "\n\n  ", "\t"]), min_size=8, max_size=8)),
            "style": draw(st.sampled_from(["plain", "semantic", "wrapped"]))}


def eval_imported(case):
    import os
    import shutil
    import tempfile

    from textx import metamodel_from_str
    from textx.exceptions import TextXError, TextXSemanticError
    from textx.model import get_model  # noqa: F401
    from textx.scoping import providers as P
    from textx.model import textxerror_wrap

    out = Outcome()
    tmp = os.path.realpath(tempfile.mkdtemp(prefix="vt-c33i-"))
    try:
        gaps = case["gaps"]

        def body(prefix, n, boom_at):
            text, pos = "", None
            for i in range(n):
                text += gaps[(i + len(prefix)) % len(gaps)]
                if i == boom_at:
                    pos = len(text)
                text += "item " + ("boom" if i == boom_at else f"{prefix}{i}")
            return text + "\n", pos

        in_lib = case["where"] == "lib"
        lib_text, lib_pos = body("l", case["lib_items"], case["k"] % case["lib_items"] if in_lib else -1)
        n_main = max(case["main_items"], 0 if in_lib else 1)
        main_body, main_pos = body("m", n_main, -1 if in_lib else case["k"] % n_main)
        head = 'import "lib.m"\n'
        main_text = head + main_body
        if main_pos is not None:
            main_pos += len(head)
        with open(os.path.join(tmp, "lib.m"), "w", newline="") as f:
            f.write(lib_text)
        with open(os.path.join(tmp, "main.m"), "w", newline="") as f:
            f.write(main_text)
        mm = metamodel_from_str(IMP_GRAMMAR)
        mm.register_scope_providers({"*.*": P.PlainNameImportURI()})

        def proc(o):
            if o.name == "boom":
                if case["style"] == "semantic":
                    raise TextXSemanticError("rejected by the harness")
                if case["style"] == "plain":
                    raise TextXError("rejected by the harness")
                raise ValueError("rejected by the harness")

        mm.register_obj_processors({"Item": textxerror_wrap(proc) if case["style"] == "wrapped" else proc})
        text, pos, fname = (lib_text, lib_pos, "lib.m") if in_lib else (main_text, main_pos, "main.m")
        el, ec = linecol(text, pos)
        out.cls("kind:imported", "failing_object_in:" + case["where"], "style:" + case["style"])
        out.nontrivial = in_lib
        out.sample = {"main": main_text, "lib": lib_text, "where": case["where"], "style": case["style"], "expected": [fname, el, ec]}
        try:
            mm.model_from_file(os.path.join(tmp, "main.m"))
            return out.add("imported/no_error", str(out.sample))
        except TextXError as e:
            got = (os.path.basename(e.filename or ""), e.line, e.col)
            if got != (fname, el, ec):
                what = "filename" if got[0] != fname else "line_col"
                out.add(f"imported/{what}/{case['where']}", f"{out.sample}: error located at {got}")
        return out
    finally:
        shutil.rmtree(tmp, ignore_errors=True)


# -- a match processor failing on a regular expression whose only group does not start the match ----------------------
@st.composite
def group_cases(draw):
    return {"kind": "group", "n": draw(st.integers(1, 4)), "k": draw(st.integers(0, 3)),
            "gaps": draw(st.lists(st.sampled_from([" ", "\n", "\n\n  ", "\t"]), min_size=8, max_size=8)),
            "style": draw(st.sampled_from(["plain", "semantic", "valueerror"])), "use_group": draw(st.booleans())}


def eval_group(case):
    from textx import metamodel_from_str
    from textx.exceptions import TextXError, TextXSemanticError

    out = Outcome()
    mm = metamodel_from_str("Model: items+=It;\nIt: 'it' v=Tag;\nTag: /<<<(\\w+)>>>/;\n", use_regexp_group=case["use_group"])
    k = case["k"] % case["n"]
    text, pos = "", None
    for i in range(case["n"]):
        text += case["gaps"][i % len(case["gaps"])] + "it" + case["gaps"][(i + 3) % len(case["gaps"])]
        if i == k:
            pos = len(text)
        text += "<<<" + ("boom" if i == k else f"t{i}") + ">>>"
    text += "\n"

    def proc(v):
        if "boom" in v:
            if case["style"] == "semantic":
                raise TextXSemanticError("rejected by the harness")
            if case["style"] == "plain":
                raise TextXError("rejected by the harness")
            raise ValueError("rejected by the harness")
        return v

    mm.register_obj_processors({"Tag": proc})
    el, ec = linecol(text, pos)
    out.cls("kind:regexp_group", "use_regexp_group=" + str(case["use_group"]), "style:" + case["style"])
    out.nontrivial = case["use_group"]
    out.sample = {"text": text, "use_regexp_group": case["use_group"], "style": case["style"], "expected": [el, ec]}
    try:
        mm.model_from_str(text)
        return out.add("group/no_error", str(out.sample))
    except TextXError as e:
        if (e.line, e.col) != (el, ec):
            out.add("group/line_col" + ("/use_regexp_group" if case["use_group"] else ""),
                    f"{out.sample}: error located at {(e.line, e.col)}")
    except ValueError:
        if case["style"] != "valueerror":
            raise
        out.cls("plain_exception_propagates")
    return out
