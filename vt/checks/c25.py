"""C25 - grammar imports resolve rules in the documented order.

Domain : generated trees of <= 6 grammar files in nested directories with a random import digraph
         (diamonds, chains, cycles without back-references, the same file imported by several
         importers), rule names from a pool of 4 so that shadowing is frequent; every rule body
         carries a keyword unique to (file, rule), so a parsed object reveals which file's rule
         matched; optional qualified rule references; one model per directly visible user rule.
Oracle : reference resolver on the generated tree: an unqualified name resolves to the current
         file's rule if it defines one, else to the first *directly* imported file (in written
         order) that defines it; a qualified name selects the named file.  Checked: the class of
         every parsed object (type(obj)._tx_fqn == '<dotted path>.<Rule>'), identity of
         metamodel['ns.Rule'] with the class reached through every importer, one class per
         (file, rule).
"""
import os
import shutil
import tempfile

from hypothesis import strategies as st

from vt.harness import Outcome

ID = "C25"
LEVEL = "exploration"
CASES = {"quick": 1200, "thorough": 60000}
POOL = ["RA", "RB", "RC", "RD"]
DIRS = ["", "", "sub", "sub/deep", "other"]
RULE = ("generated grammar trees: 1-6 files in directories {., sub, sub/deep, other}, random import edges (cycles only "
        "without back-references), 1-3 pool rules per file (each optionally containing another pool rule), a user rule per "
        "file, optional qualified references; the root model exercises every user rule visible from the root. non-trivial: a "
        "rule name is defined in >=2 files reachable from one importer, or the import graph has a diamond; distinct by "
        "canonical JSON"
        " also: alias rules (plain / qualified, possibly shadowed targets), one attribute assigned from the root's rule and the same-named rule of an import, per-file Comment rules")
ASSUMPTIONS = [
    "imports of an import are not visible (grammar.md: 'first searched in the current file and then in the imported files')",
    "import cycles are generated without back-references (a file of the cycle never uses a rule of its importer)",
    "qualified names are written from the root directory (component.types.List as in grammar.md)",
]
LEVEL_TEXT = ("Generated grammar file trees compared with a reference name resolver; the parsed objects' classes reveal "
              "which file's rule was chosen.")
LEVEL_NOTE = "Trusts the reference resolver (own file, then direct imports in order) written from grammar.md."
TECHNIQUE = "property-based testing (Hypothesis) over generated grammar file trees against a reference resolver"
DESIGN_REF = "DESIGN.md section 4 C25"


@st.composite
def cases(draw):
    n = draw(st.integers(1, 6))
    files = []
    for i in range(n):
        d = "" if i == 0 else draw(st.sampled_from(DIRS))
        rules = draw(st.lists(st.sampled_from(POOL), min_size=1, max_size=3, unique=True))
        files.append({"dir": d, "rules": {r: draw(st.one_of(st.none(), st.sampled_from(POOL))) for r in rules},
                      "uses": draw(st.sampled_from(POOL)), "qualified": draw(st.integers(0, 5)) == 0,
                      # an abstract rule whose whole body is one (optionally qualified) rule reference; a qualified
                      # one may name any visible file that defines the rule, also one that is shadowed for plain names
                      "alias": draw(st.sampled_from([None, None, "plain", "qualified"])), "alias_pick": draw(st.integers(0, 5))})
    edges = []
    for i in range(n):
        k = draw(st.integers(0, min(3, n - 1)))
        ts = draw(st.lists(st.integers(0, n - 1).filter(lambda j: j != i), min_size=k, max_size=k, unique=True)) if n > 1 else []
        edges += [[i, j] for j in ts]
    # the root may assign one attribute from its own rule and from the same-named rule of an import (-> OBJECT), and
    # the files may define different Comment rules (the root's applies)
    return {"files": files, "edges": edges, "both": draw(st.booleans()), "comments": draw(st.booleans()),
            "samename": draw(st.integers(0, 2)) == 0}


def strategy(tier):
    return cases()


def bare(case, i):
    """file name without directory and extension: g<i>; with "samename" the first file that lives in a sub-directory takes
    the name of the first root-level file other than the root grammar (same bare name in two directories)"""
    if case.get("samename") and i != 0:
        files = case["files"]
        sub = next((k for k in range(1, len(files)) if files[k]["dir"]), None)
        top = next((k for k in range(1, len(files)) if not files[k]["dir"]), None)
        if sub is not None and top is not None and i == sub:
            return f"g{top}"
    return f"g{i}"


def ns(case, i):
    d = case["files"][i]["dir"]
    return ".".join([p for p in d.split("/") if p] + [bare(case, i)])


def imports(case, i):
    return [j for a, j in case["edges"] if a == i]


def resolve(case, i, name):
    """file index whose rule `name` is meant inside file i, or None"""
    if name in case["files"][i]["rules"]:
        return i
    for j in imports(case, i):
        if name in case["files"][j]["rules"]:
            return j
    return None


def alias_target(case, i):
    """file whose rule the alias rule Al<i> of file i stands for, or None when file i has no alias rule"""
    f = case["files"][i]
    if not f.get("alias"):
        return None
    if f["alias"] == "plain":
        return resolve(case, i, f["uses"])
    cands = [j for j in [i] + imports(case, i) if f["uses"] in case["files"][j]["rules"]]
    return cands[f["alias_pick"] % len(cands)] if cands else None


def both_target(case):
    """(rule name, importing-visible file) such that the root defines the rule and a direct import defines one of the
    same name, or None"""
    if not case.get("both"):
        return None
    for r in case["files"][0]["rules"]:
        for j in imports(case, 0):
            if j != 0 and r in case["files"][j]["rules"]:
                return (r, j)
    return None


def rel_import(case, i, j):
    """import name of file j as written inside file i (relative to i's directory, dot notation)"""
    di = [p for p in case["files"][i]["dir"].split("/") if p]
    dj = [p for p in case["files"][j]["dir"].split("/") if p]
    if dj[:len(di)] != di:
        return None  # not below the importing file's directory: cannot be written
    return ".".join(dj[len(di):] + [bare(case, j)])


def evaluate(case):
    from textx import metamodel_from_file
    from textx.exceptions import TextXError

    out = Outcome()
    n = len(case["files"])
    # drop edges that cannot be written (target not below the importer's directory) and back-references in cycles
    edges = [[i, j] for i, j in case["edges"] if rel_import(case, i, j) is not None]
    case = dict(case, edges=edges)

    def reach(i, seen=None):
        seen = seen if seen is not None else set()
        for j in imports(case, i):
            if j not in seen:
                seen.add(j)
                reach(j, seen)
        return seen

    # keywords
    kw = lambda i, r: f"k{i}{r.lower()}"  # noqa: E731
    texts = {}
    expect_unresolved = None
    for i, f in enumerate(case["files"]):
        t = "".join(f"import {rel_import(case, i, j)}\n" for j in imports(case, i))
        if i == 0:
            vis = [0] + imports(case, 0)
            both = both_target(case)
            t += "Model: items+=Item;\nItem: " + " | ".join([f"U{j}" for j in vis] + (["Both"] if both else [])) + ";\n"
            if both:
                t += f"Both: 'both' (c={both[0]} | c={ns(case, both[1])}.{both[0]});\n"
                t += f"AnyBoth: {both[0]} | {ns(case, both[1])}.{both[0]};\n"
        if case.get("comments"):
            t += "Comment: /\\/\\/.*?$/;\n" if i == 0 else "Comment: /#.*?$/;\n"
        tgt = resolve(case, i, f["uses"])
        ref = f["uses"]
        if tgt is not None and f["qualified"]:
            ref = ns(case, tgt) + "." + f["uses"]
        al = alias_target(case, i)
        if al is not None:
            aref = f["uses"] if f["alias"] == "plain" else ns(case, al) + "." + f["uses"]
            t += f"U{i}: 'u{i}' x={ref} ('al' y=Al{i})?;\nAl{i}: {aref};\n"
        else:
            t += f"U{i}: 'u{i}' x={ref};\n"
        if tgt is None and (i == 0 or i in reach(0)) and expect_unresolved is None:
            expect_unresolved = (i, f["uses"])
        for r, inner in f["rules"].items():
            body = f"'{kw(i, r)}' v=INT"
            if inner is not None and resolve(case, i, inner) is not None and inner != r:
                body += f" ('+' n={inner})?"
            t += f"{r}: {body};\n"
        texts[i] = t
    tmp = os.path.realpath(tempfile.mkdtemp(prefix="vt-c25-"))
    try:
        for i, t in texts.items():
            d = os.path.join(tmp, case["files"][i]["dir"])
            os.makedirs(d, exist_ok=True)
            with open(os.path.join(d, bare(case, i) + ".tx"), "w") as fh:
                fh.write(t)
        ctx = f"files={texts} edges={edges}"
        shadow = any(sum(1 for j in [i] + imports(case, i) if r in case["files"][j]["rules"]) >= 2
                     for i in range(n) for r in POOL)
        indeg = {}
        for i in [0] + sorted(reach(0)):
            for j in imports(case, i):
                indeg[j] = indeg.get(j, 0) + 1
        diamond = any(v >= 2 for v in indeg.values())
        out.nontrivial = shadow or diamond
        out.cls(f"files={n}", "shadowing" if shadow else "no_shadowing", "diamond" if diamond else "no_diamond")
        if any(f["qualified"] for f in case["files"]):
            out.cls("qualified_rule_reference")
        out.sample = {"files": texts}
        # back-references in import cycles: a file that is imported while one of its (transitive) importers is
        # still being loaded, and that uses a rule of that importer (recorded finding F-C25a)
        back_ref = False
        stack, done = [], set()

        def dfs(i):
            nonlocal back_ref
            stack.append(i)
            for j in imports(case, i):
                if j in stack:
                    f = case["files"][i]
                    used = [f["uses"]] + [x for x in f["rules"].values() if x]
                    if any(resolve(case, i, u) == j for u in used) or alias_target(case, i) == j:
                        back_ref = True
                elif j not in done:
                    dfs(j)
            stack.pop()
            done.add(i)

        dfs(0)
        if back_ref:
            out.cls("cycle_with_back_reference")
        try:
            mm = metamodel_from_file(os.path.join(tmp, "g0.tx"))
        except TextXError as e:
            if expect_unresolved is not None and "Unexisting rule" in str(e):
                return out
            if back_ref and "Unexisting rule" in str(e):
                return out.add("grammar_rejected/cyclic_back_reference", ctx + f": {e}")
            qual = any(f["qualified"] and resolve(case, i, f["uses"]) is not None for i, f in enumerate(case["files"])
                       if i == 0 or i in reach(0))
            return out.add("grammar_rejected/" + ("qualified_rule_reference" if qual else "plain"), ctx + f": {e}")
        except RecursionError:
            return out.add("grammar_recursion_error", ctx)
        if expect_unresolved is not None:
            return out.add("unresolvable_rule_accepted", ctx + f": {expect_unresolved}")
        # classes: one per (file, rule), fqn, identity through every access path
        loaded = [0] + sorted(reach(0))
        for i in loaded:
            for r in case["files"][i]["rules"]:
                fq = ns(case, i) + "." + r
                try:
                    c = mm[fq]
                except KeyError:
                    out.add("qualified_lookup_fails", ctx + f": metamodel[{fq!r}]")
                    continue
                if c._tx_fqn != fq:
                    out.add("fqn", ctx + f": metamodel[{fq!r}]._tx_fqn == {c._tx_fqn!r}")
        both = both_target(case)
        if both:
            out.cls("attribute_from_two_same_named_rules")
            r, j = both
            acls = mm["Both"]._tx_attrs["c"].cls
            if acls.__name__ != "OBJECT":
                out.add("both/attribute_type", ctx + f": Both.c is assigned from g0.{r} and {ns(case, j)}.{r} but its type is "
                        f"{getattr(acls, '_tx_fqn', acls.__name__)}, expected OBJECT")
            for fi in (0, j):
                t2 = f"both {kw(fi, r)} 7"
                try:
                    o = mm.model_from_str(t2).items[0].c
                    if getattr(type(o), "_tx_fqn", None) != ns(case, fi) + "." + r:
                        out.add("both/wrong_rule_chosen", ctx + f": input {t2!r}: object of {getattr(type(o), '_tx_fqn', None)}")
                    else:
                        from textx import textx_isinstance

                        # AnyBoth: R | gj.R - two classes with the same simple name below one abstract rule
                        if not textx_isinstance(o, mm["AnyBoth"]):
                            out.add("both/not_instance_of_abstract_rule", ctx + f": the {ns(case, fi)}.{r} object is not an "
                                    f"instance of AnyBoth ({r} | {ns(case, j)}.{r})")
                except TextXError as e:
                    out.add("both/rejected", ctx + f": input {t2!r}: {e}")
        # parse one item per user rule visible from the root and follow the chain
        for j in [0] + imports(case, 0):
            f = case["files"][j]
            toks = [f"u{j}"]
            chain = []
            cur_file, name = j, f["uses"]
            for step in range(4):
                t = resolve(case, cur_file, name)
                if t is None:
                    break
                chain.append((t, name))
                toks += [kw(t, name), "7"]
                inner = case["files"][t]["rules"][name]
                if step == 3 or inner is None or inner == name or resolve(case, t, inner) is None:
                    break
                toks.append("+")
                cur_file, name = t, inner
            text = " ".join(toks)
            try:
                m = mm.model_from_str(text)
            except TextXError as e:
                out.add("rule_of_another_file_used/" + ("cyclic_back_reference" if back_ref else
                                                         ("shadowed" if shadow else "plain")), ctx + f": input {text!r}: {e}")
                continue
            if case.get("comments") and len(toks) >= 2:
                # the root grammar's Comment rule ('//') applies to the whole model; the imported files' ('#') does not
                out.cls("comment_rules_differ")
                try:
                    mm.model_from_str(toks[0] + " // z\n " + " ".join(toks[1:]))
                except TextXError as e:
                    out.add("comments/root_style_rejected", ctx + f": input {text!r} with a '//' comment: {e}")
                try:
                    mm.model_from_str(toks[0] + " # z\n " + " ".join(toks[1:]))
                    if any(j2 != 0 for j2 in loaded):
                        out.add("comments/imported_style_accepted", ctx + f": input {text!r} with a '#' comment is accepted")
                except TextXError:
                    pass
            o = m.items[0].x
            for t, name in chain:
                want = ns(case, t) + "." + name
                got = getattr(type(o), "_tx_fqn", None)
                if got != want:
                    out.add("wrong_rule_chosen" + ("/cyclic_back_reference" if back_ref else ""),
                            ctx + f": input {text!r}: object of {got}, expected {want}")
                    break
                if type(o) is not mm[want]:
                    out.add("class_not_shared", ctx + f": {want}: the object's class is not metamodel[{want!r}]")
                    break
                o = getattr(o, "n", None)
                if o is None:
                    break
            # the alias rule of the same file: the object is of the rule it stands for and an instance of the alias
            al = alias_target(case, j)
            if al is not None:
                from textx import textx_isinstance

                name = f["uses"]
                text2 = " ".join(toks[:3] if len(toks) >= 3 else toks) + f" al {kw(al, name)} 9"
                out.cls("alias_rule:" + f["alias"] + ("_shadowed" if al != resolve(case, j, name) else ""))
                try:
                    m2 = mm.model_from_str(text2)
                except TextXError as e:
                    out.add("alias_rule/rejected", ctx + f": input {text2!r}: {e}")
                    continue
                o2 = m2.items[0].y
                want = ns(case, al) + "." + name
                if getattr(type(o2), "_tx_fqn", None) != want:
                    out.add("alias_rule/wrong_rule_chosen", ctx + f": input {text2!r}: object of "
                            f"{getattr(type(o2), '_tx_fqn', None)}, expected {want}")
                elif not textx_isinstance(o2, mm[ns(case, j) + f".Al{j}"]):
                    out.add("alias_rule/not_instance_of_alias", ctx + f": input {text2!r}: the {want} object is not an "
                            f"instance of {ns(case, j)}.Al{j}")
        return out
    finally:
        shutil.rmtree(tmp, ignore_errors=True)
