"""C06 - object source spans and locations are exact.

Domain : (1) generated grammars without suppression (so that an object's first / last matched
             character is its first / last parse node) and accepted inputs with generated layout;
         (2) generated packages/classes models with generated layout (leading, trailing and
             interleaved whitespace and comments), loaded from strings and from files.
Oracle : the reference interpreter's token trace / the writer's offset bookkeeping:
         _tx_position = start of the object's first terminal, _tx_position_end = end of its last one;
         the slice is non-empty; a child's slice lies inside its parent's; objects of one list
         attribute are ordered and do not overlap; get_location = independent line/column of
         _tx_position (1-based, '\\n' counting), nchar = slice length, filename = None / the path.
"""
import os
import shutil
import tempfile

from hypothesis import strategies as st

from vt import dump as D
from vt.checks import c01
from vt.gen import grammar as G
from vt.gen import inputs as I
from vt.gen import models as M
from vt.gen.writer import linecol
from vt.harness import Outcome
from vt.ref import peg

ID = "C06"
LEVEL = "exploration"
CASES = {"quick": 3000, "thorough": 150000}
RULE = ("(a) generated grammars without suppression x 4 derived inputs (generated layout incl. comments); (b) generated "
        "packages/classes models with generated layout, loaded from a string and from a file. non-trivial: the input has >=2 "
        "lines, a comment or a multi-character gap in front of an object, and nested objects; distinct by canonical JSON")
ASSUMPTIONS = [
    "an object's first/last matched character is the start/end of its first/last non-suppressed terminal (grammars with the "
    "suppression operator are excluded and counted)",
    "line/column: 1-based, lines separated by '\\n'",
    "spans that include a separator which the engine gave back (recorded engine finding F-C01e) are bucketed separately",
]
LEVEL_TEXT = ("Generated models with generated layout; positions compared with the reference interpreter's token trace / "
              "the generator's own offset bookkeeping and an independent line/column computation.")
LEVEL_NOTE = "Trusts the reference token trace and the writer's recorded offsets."
TECHNIQUE = "property-based testing (Hypothesis) against recorded token offsets"
DESIGN_REF = "DESIGN.md section 4 C06"


@st.composite
def cases(draw):
    if draw(st.integers(0, 9)) < 5:
        g = draw(G.grammars(max_rules=5, min_rules=2, modifiers=False, eolterm=False).filter(
            lambda g: "sup" not in G.constructs(g)))
        cfg = {"skipws": True, "ws": None, "auto_init_attributes": True, "use_regexp_group": False}
        texts = draw(I.inputs_for(g, cfg, n=4, mutate=False))
        return {"kind": "grammar", "g": g, "cfg": cfg, "inputs": texts}
    return {"kind": "classes", "model": draw(M.class_models(depth=2, max_top=3)), "from_file": draw(st.booleans())}


def strategy(tier):
    return cases()


def check_obj(out, ctx, o, text, start, end, fname, sfx=""):
    from textx import get_location

    ps, pe = getattr(o, "_tx_position", None), getattr(o, "_tx_position_end", None)
    cls = type(o).__name__
    if ps is None or pe is None:
        out.add("span/missing", ctx + f": {cls} object has no position")
        return False
    if (ps, pe) != (start, end):
        kind = "start" if ps != start else "end"
        out.add(f"span/{kind}{sfx}", ctx + f": {cls} object spans [{ps},{pe}) = {text[ps:pe]!r}, expected [{start},{end}) = "
                f"{text[start:end]!r}")
        return False
    if pe <= ps:
        out.add("span/empty", ctx + f": {cls} object spans [{ps},{pe})")
    loc = get_location(o)
    el, ec = linecol(text, start)
    if (loc["line"], loc["col"]) != (el, ec):
        out.add("location/line_col", ctx + f": {cls} at offset {start}: get_location says {(loc['line'], loc['col'])}, "
                f"expected {(el, ec)}")
    if loc["nchar"] != end - start:
        out.add("location/nchar", ctx + f": {cls}: nchar {loc['nchar']} expected {end - start}")
    if loc["filename"] != fname:
        out.add("location/filename", ctx + f": {cls}: filename {loc['filename']!r} expected {fname!r}")
    return True


def walk_pair(ref_obj, tx_obj, acc):
    acc.append((ref_obj, tx_obj))
    for a, v in ref_obj.attrs.items():
        tv = getattr(tx_obj, a)
        rv = v if isinstance(v, list) else [v]
        tl = tv if isinstance(tv, list) else [tv]
        for r, t in zip(rv, tl):
            if isinstance(r, peg.Obj):
                walk_pair(r, t, acc)


def structure_checks(out, ctx, tx_root):
    """child inside parent; list siblings ordered and disjoint (on textX's own numbers)"""

    def go(o):
        cls = type(o)
        for a, attr in getattr(cls, "_tx_attrs", {}).items():
            if not attr.cont:
                continue
            v = getattr(o, a)
            vals = v if isinstance(v, list) else [v]
            objs = [x for x in vals if hasattr(type(x), "_tx_attrs")]
            for x in objs:
                if not (o._tx_position <= x._tx_position and x._tx_position_end <= o._tx_position_end):
                    out.add("nesting/child_outside_parent", ctx + f": {type(x).__name__} [{x._tx_position},{x._tx_position_end}) "
                            f"in {cls.__name__} [{o._tx_position},{o._tx_position_end})")
                go(x)
            if isinstance(v, list):
                for x, y in zip(objs, objs[1:]):
                    if x._tx_position_end > y._tx_position:
                        out.add("siblings/overlap_or_disorder", ctx + f": {cls.__name__}.{a}: [{x._tx_position},"
                                f"{x._tx_position_end}) then [{y._tx_position},{y._tx_position_end})")

    go(tx_root)


def nontrivial_text(text, spans):
    if text.count("\n") < 1:
        return False
    for s, e in spans:
        gap = text[:s].rstrip(" \t\n")
        if len(text[:s]) - len(gap) >= 2 or "#" in text[:s][-6:] or "*/" in text[:s][-4:]:
            return True
    return False


def evaluate(case):
    from textx.exceptions import TextXError

    out = Outcome()
    if case["kind"] == "classes":
        from vt.checks.c05 import _classes_mm

        mm = _classes_mm()
        text, root = M.build_class_model(case["model"])
        tmp = None
        fname = None
        # an earlier load with another line structure on the same metamodel (positions of a model must not
        # depend on what the metamodel parsed before); part of every case so that a replay is self-contained
        mm.model_from_str("\n\n  package zz {\n\n\n   class q\n }\n")
        try:
            if case["from_file"]:
                tmp = tempfile.mkdtemp(prefix="vt-c06-")
                fname = os.path.join(tmp, "m.model")
                with open(fname, "w", newline="") as f:
                    f.write(text)
                model = mm.model_from_file(fname)
            else:
                model = mm.model_from_str(text)
        except TextXError as e:
            return out.add("model_rejected", f"{text!r}: {e}")
        finally:
            if tmp:
                shutil.rmtree(tmp, ignore_errors=True)
        M.bind(root, model)
        ctx = f"model={text!r}"
        nodes = [n for n in root.walk() if n.parent is not None]
        for n in nodes:
            check_obj(out, ctx, n.obj, text, n.span[0], n.span[1], fname)
        if nodes:
            # the root spans from its first to its last package
            check_obj(out, ctx, model, text, min(n.span[0] for n in nodes), max(n.span[1] for n in nodes), fname)
        structure_checks(out, ctx, model)
        out.cls("kind:classes", "from_file" if case["from_file"] else "from_string")
        out.nontrivial = any(n.parent.parent is not None for n in nodes) and nontrivial_text(text, [n.span for n in nodes])
        out.sample = {"model": text}
        return out
    g, cfg = case["g"], case["cfg"]
    gtext = G.to_text(g)
    try:
        mm = c01.make_metamodel(g, cfg)
    except TextXError as e:
        return out.add("grammar_rejected", f"{gtext!r}: {e}")
    out.cls("kind:grammar")
    out.sample = {"grammar": gtext, "inputs": case["inputs"][:2]}
    nt = False
    for text in case["inputs"]:
        res, it = peg.parse(g, cfg, text)
        if res[0] != "ok" or not isinstance(res[1], peg.Obj):
            continue
        try:
            model = mm.model_from_str(text)
        except TextXError:
            continue
        if c01.ref_diff(g, cfg, text, D.dump_textx(model), res[1]):
            continue
        pairs = []
        walk_pair(res[1], model, pairs)
        ctx = f"grammar={gtext!r} input={text!r}"
        bad = False
        for r, t in pairs:
            ps, pe = getattr(t, "_tx_position", None), getattr(t, "_tx_position_end", None)
            if (ps, pe) != (r.start, r.end):
                bad = True
        if bad:
            # recorded engine finding: a separator that was given back stays in the parse tree
            res2, _ = peg.parse(g, cfg, text, quirks=("trailing_sep_node",))
            pairs2 = []
            if res2[0] == "ok" and isinstance(res2[1], peg.Obj):
                walk_pair(res2[1], model, pairs2)
            if pairs2 and all((getattr(t, "_tx_position", None), getattr(t, "_tx_position_end", None)) == (r.start, r.end)
                              for r, t in pairs2):
                out.add("known/trailing_separator_node", ctx)
                continue
        for r, t in pairs:
            check_obj(out, ctx, t, text, r.start, r.end, None)
        if not bad:
            structure_checks(out, ctx, model)
        if len(pairs) >= 2 and nontrivial_text(text, [(r.start, r.end) for r, _ in pairs]):
            nt = True
    out.nontrivial = nt
    return out
