"""C21 - autokwd matches keyword-like literals only on word boundaries.

Domain : generated grammars mixing identifier-like literals (with digits, underscores, non-ASCII
         letters, one-character keywords) and symbol literals; inputs with and without a word
         character glued to a literal (tight / no-gap layouts, token mutations); autokwd on and off.
Oracle : (a) differential against the reference interpreter run with autokwd (a keyword-like literal
             needs a word boundary after it) - acceptance and model;
         (b) for inputs in which, in the parse without autokwd, no keyword-like literal is directly
             followed by a word character (grammars without predicates): same outcome and model with
             autokwd on and off;
         (c) grammars whose literals are all not identifier-like: identical outcome for every input.
"""
import re

from hypothesis import strategies as st

from vt import dump as D
from vt.checks import c01
from vt.checks.c20 import remap, run_textx
from vt.gen import grammar as G
from vt.gen import inputs as I
from vt.harness import Outcome
from vt.ref import peg

ID = "C21"
LEVEL = "exploration"
CASES = {"quick": 2500, "thorough": 250000}
RULE = ("generated grammars (<=4 rules, keyword pool incl. x1, _k, äa, кw, one-letter keywords; symbol literals) x 6 inputs "
        "(tight layouts so that keywords glue to following words, 40% mutated) evaluated with autokwd on and off; "
        "non-trivial: the grammar has keyword-like and symbol literals and some input has a keyword-like literal directly "
        "followed by a word character; distinct by canonical JSON")
ASSUMPTIONS = c01.ASSUMPTIONS[:3] + [
    "keyword-like = the whole literal matches [^\\d\\W]\\w*",
    "clause (b) uses a textual precondition: the input contains no occurrence of a keyword-like literal of the grammar "
    "directly followed by a word character (then 'lit' and 'lit\\b' match at the same positions and the parsers cannot diverge)",
]
LEVEL_TEXT = ("Differential testing: textX with autokwd vs the reference interpreter with word-boundary keywords, and textX "
              "autokwd on vs off on inputs where the documentation says they must agree.")
LEVEL_NOTE = "Trusts the reference interpreter (keyword-like literals need \\b under autokwd)."
TECHNIQUE = "property-based differential testing (Hypothesis): autokwd on vs off vs reference"
DESIGN_REF = "DESIGN.md section 4 C21"
KW1 = {"cc": "x", "bb": "_", "aa": "äa", "kw": "кw", "end": "end\n", "begin": "be-gin"}
KWLIKE = re.compile(r"[^\d\W]\w*")


def remap1(e):
    if isinstance(e, list):
        if len(e) == 2 and e[0] == "str" and e[1] in KW1:
            return ["str", KW1[e[1]]]
        return [remap1(x) for x in e]
    return e


@st.composite
def cases(draw):
    g = draw(G.grammars(max_rules=4, modifiers=False, eolterm=False))
    if draw(st.booleans()):
        g = {"rules": [dict(r, body=remap1(r["body"])) for r in g["rules"]], "comment": g["comment"]}
    cfg = {"skipws": True, "ws": None, "auto_init_attributes": True, "use_regexp_group": False}
    texts = draw(I.inputs_for(g, cfg, n=6, mutate=True))
    # force tight layouts for half of the inputs: re-join on single blanks removed where possible
    tight = []
    for i, t in enumerate(texts):
        if i % 2 == 0:
            toks = t.split()
            t = "".join(toks) if draw(st.booleans()) else " ".join(toks)
        tight.append(t)
    return {"g": g, "cfg": cfg, "inputs": tight}


def strategy(tier):
    return cases()


def literals_of(g):
    return [e[1] for r in g["rules"] for e in G.walk(r["body"]) if e[0] == "str"]


def evaluate(case):
    from textx.exceptions import TextXError

    out = Outcome()
    g, cfg = case["g"], case["cfg"]
    gtext = G.to_text(g)
    lits = literals_of(g)
    kwlike = [l for l in lits if KWLIKE.fullmatch(l)]
    has_pred = any(e[0] in ("not", "and") for r in g["rules"] for e in G.walk(r["body"]))
    cfg_on, cfg_off = dict(cfg, autokwd=True), dict(cfg, autokwd=False)
    try:
        mm_on = c01.make_metamodel(g, cfg_on)
        mm_off = c01.make_metamodel(g, cfg_off)
    except TextXError as e:
        return out.add("grammar_rejected", f"{gtext!r}: {e}")
    out.cls("all_symbol_literals" if not kwlike else "has_keyword_like", "predicates" if has_pred else "no_predicates")
    out.sample = {"grammar": gtext, "inputs": case["inputs"][:3]}
    nt = False
    for text in case["inputs"]:
        ctx = f"grammar={gtext!r} input={text!r}"
        on = run_textx(mm_on, text)
        off = run_textx(mm_off, text)
        # (a) reference with autokwd
        rres, _ = peg.parse(g, cfg_on, text)
        if rres[0] == "ok":
            if on[0] != "ok":
                out.add("autokwd_on/rejects_reference_accepts", ctx + f": {on[1]}")
            elif rres[1] is not None:
                df = c01.ref_diff(g, cfg_on, text, on[1], rres[1])
                if df and df[0] == "new":
                    out.add("autokwd_on/model_" + df[1], ctx + " " + df[2])
        elif rres[0] == "syntax" and on[0] == "ok":
            out.add("autokwd_on/accepts_reference_rejects", ctx + " (keyword glued to a word character?)")
        # does the text contain a keyword-like literal of the grammar directly followed by a word character?
        # (textual precondition: where it does not, 'lit' and 'lit\b' match at exactly the same positions, so
        # the two parsers cannot diverge)
        glued = any(re.search(re.escape(l) + r"\w", text) for l in set(kwlike))
        if glued and kwlike and len(kwlike) < len(lits):
            nt = True
        if glued:
            out.cls("input_with_glued_keyword")
        # (c) no keyword-like literal at all: identical for every input
        if not kwlike:
            if on[0] != off[0] or (on[0] == "ok" and D.diff(on[1], off[1])):
                out.add("symbol_literals_only/outcome_differs", ctx + f": on={on[0]} off={off[0]}")
        # (b) nothing glued in the accepted parse: same outcome
        elif not glued:
            if on[0] != off[0]:
                out.add("not_glued/acceptance_differs", ctx + f": autokwd on -> {on[0]}, off -> {off[0]}")
            elif on[0] == "ok" and D.diff(on[1], off[1]):
                df = D.diff(on[1], off[1])
                out.add("not_glued/model_" + df[0], ctx + f" at {df[1]}: on {df[2]} off")
    out.nontrivial = nt
    return out
