"""C11 - RREL reference resolution follows the documented expression semantics.

Domain : RREL expression trees (navigation, ~, 'fixed'~, ., .., ..., ^, parent(T), *, brackets, ','
         with and without +p:) over the attribute names of a generated packages/classes model
         (nested packages, classes with attributes and nested classes, resolved `base`/`type`
         references, names unique within each collection), evaluated
         (1) directly: rrel.find(start, name, expr, Cls) from every object as start and every
             1-3 part name over the names present (plus a dangling one);
         (2) end to end: the expression written in the grammar of a reference ([Cls:FQN|expr]) or
             registered as a string, with a multi-part reference text (split='.' and split='/').
Oracle : relational semantics vt/ref/rrel.py (states, least fixpoint for *).  soundness: the result
         is a final state of some alternative; completeness: a final state exists => a result is
         returned; precedence: the result belongs to the first alternative that has a final state;
         +p: the proxy's path is the path of a final state of that object.
"""
from hypothesis import strategies as st

from vt.gen import models as M
from vt.gen import rrel as G
from vt.harness import Outcome
from vt.ref import rrel as R

ID = "C11"
LEVEL = "exploration"
CASES = {"quick": 900, "thorough": 60000}
ATTRS = ["packages", "classes", "attrs", "c", "base", "type", "parent"]
TYPES = ["Package", "Cls", "Attr", "Model"]
RULE = ("(expression, model) pairs: expression depth<=2 over attributes {packages, classes, attrs, c, base, type, parent}, "
        "types {Package, Cls, Attr, Model}, fixed names from the name pool, flags ''/+p:; model: generated package tree "
        "(depth<=3) - evaluated from every object with every 1-3 part name over {a,b,c,d,zz} (direct), and once end to end "
        "in a grammar. non-trivial: expression has * or , or ^ and the evaluation yields a final state for some (start, "
        "name) with >=2 name parts; also: (3) one provider object registered for two attributes with different name separators, (4) a fixed grammar family navigating through a reference list (~extends*) whose entries resolve in different passes (aliases declared later); distinct by canonical JSON")
ASSUMPTIONS = [
    "names are unique within one collection (the implementation takes the first of equal names - unspecified)",
    "expressions whose leading starred bracket mixes root-started and locally-started paths are excluded and counted",
    "which of several admissible objects of one alternative is returned is not asserted",
    "direct evaluation happens on fully loaded models (no Postponed)",
]
LEVEL_TEXT = ("Generated (expression, model) pairs evaluated from every start object and every short name, compared with an "
              "independent relational semantics (soundness, completeness, alternative precedence, +p: path).")
LEVEL_NOTE = "Trusts the relational reference semantics written from rrel.md; bounded expression and model sizes."
TECHNIQUE = "property-based testing (Hypothesis) against a reference (relational) interpreter of RREL"
DESIGN_REF = "DESIGN.md section 4, C11 and Appendix B"

_MM = None


_MM_FALSY = None


def _mm(falsy=False):
    """the packages/classes metamodel; with falsy=True Package and Cls are user classes whose instances are falsy
    (container-like: __len__ == 0) - the expression semantics must not depend on the truth value of the objects"""
    global _MM, _MM_FALSY
    from textx import metamodel_from_str

    if falsy:
        if _MM_FALSY is None:
            def init(self, **kw):
                for k_, v_ in kw.items():
                    setattr(self, k_, v_)

            classes = [type(n, (object,), {"__init__": init, "__len__": lambda self: 0}) for n in ("Package", "Cls")]
            _MM_FALSY = metamodel_from_str(M.GRAMMAR, classes=classes)
        return _MM_FALSY
    if _MM is None:
        _MM = metamodel_from_str(M.GRAMMAR)
    return _MM


def strategy(tier):
    fixed = st.one_of(st.none(), st.none(), st.sampled_from(M.NAMES).map(lambda n: ["'", n]))

    def fix_names(expr):
        # replace the generator's exotic fixed names by names of the pool (so that they can match)
        def fe(e):
            if e["k"] == "nav" and e["fixed"] is not None:
                e = dict(e, fixed=["'", M.NAMES[len(e["fixed"][1]) % 4]])
            if e["k"] == "br":
                e = dict(e, paths=[fp(p) for p in e["paths"]])
            return e

        def fp(p):
            return dict(p, elems=[fe(e) for e in p["elems"]])

        return dict(expr, paths=[fp(p) for p in expr["paths"]])

    untyped = st.one_of(G.exprs(depth=1, names=ATTRS, types=TYPES, flags=["", "", "+p:"]),
                        G.exprs(depth=2, names=ATTRS, types=TYPES, flags=["", "+p:"])).map(fix_names)
    ex = st.one_of(typed_exprs(), typed_exprs(), typed_exprs(), untyped)
    main = st.fixed_dictionaries({"expr": ex, "model": M.class_models(depth=2, max_top=2),
                                  "e2e_name": st.lists(st.sampled_from(M.NAMES), min_size=1, max_size=3),
                                  "split": st.sampled_from([".", "/"])})
    return st.one_of(main, main, main, reflist_cases())


# which attributes exist on which kind of object, and where they lead (used to generate expressions that
# are likely to match something; the oracle never looks at this table)
SCHEMA = {
    "Model": {"packages": {"Package"}},
    "Package": {"packages": {"Package"}, "classes": {"Cls"}, "parent": {"Package", "Model"}},
    "Cls": {"attrs": {"Attr"}, "c": {"Cls"}, "base": {"Cls"}, "parent": {"Package", "Cls"}},
    "Attr": {"type": {"Cls"}, "parent": {"Cls"}},
}
ALL_KINDS = set(SCHEMA)


@st.composite
def typed_paths(draw, depth, kinds0=None):
    """a path that type-checks against SCHEMA for at least one possible kind at every step"""
    lead = draw(st.sampled_from([None, None, None, "^", "^", 1, 2, 3]))
    elems = []
    if lead is None:
        first = draw(st.sampled_from(["nav", "nav", "nav", "parent"]))
        if first == "parent":
            t = draw(st.sampled_from(["Package", "Cls", "Model"]))
            elems.append({"k": "parent", "type": t, "star": draw(st.booleans()) and False})
            kinds = {t}
        else:
            kinds = {"Model"}
    else:
        kinds = set(kinds0 or ALL_KINDS)
        if lead != "^" and lead > 1:
            kinds = {"Package", "Cls", "Model"}
    n = draw(st.integers(0 if (lead is not None or elems) else 1, 3))
    for _ in range(n):
        opts = sorted({a for k in kinds for a in SCHEMA[k]})
        if not opts:
            break
        if depth > 0 and draw(st.integers(0, 5)) == 0:
            sub = [draw(typed_sub(depth - 1, kinds)) for _ in range(draw(st.integers(1, 2)))]
            elems.append({"k": "br", "paths": [s[0] for s in sub], "star": draw(st.booleans())})
            kinds = set().union(*[s[1] for s in sub]) | (kinds if elems[-1]["star"] else set())
            continue
        a = draw(st.sampled_from(opts))
        is_ref = a in ("base", "type", "parent")
        consume = draw(st.integers(0, 9)) < (2 if is_ref else 7)
        fixed = None
        if not consume and draw(st.integers(0, 5)) == 0:
            fixed = ["'", draw(st.sampled_from(M.NAMES))]
        star = draw(st.integers(0, 9)) < 3
        elems.append({"k": "nav", "name": a, "consume": consume and fixed is None, "fixed": fixed, "star": star})
        nk = set().union(*[SCHEMA[k].get(a, set()) for k in kinds])
        kinds = (nk | kinds) if star else nk
    if lead is None and not elems:
        elems.append({"k": "nav", "name": "packages", "consume": True, "fixed": None, "star": True})
        kinds = {"Model", "Package"}
    return {"lead": lead, "elems": elems}, kinds


@st.composite
def typed_sub(draw, depth, kinds):
    """a path used inside brackets after other elements (continues from the given kinds; no root restart)"""
    elems = []
    cur = set(kinds)
    for _ in range(draw(st.integers(1, 2))):
        opts = sorted({a for k in cur for a in SCHEMA[k]})
        if not opts:
            break
        a = draw(st.sampled_from(opts))
        is_ref = a in ("base", "type", "parent")
        consume = draw(st.integers(0, 9)) < (2 if is_ref else 7)
        elems.append({"k": "nav", "name": a, "consume": consume, "fixed": None, "star": False})
        cur = set().union(*[SCHEMA[k].get(a, set()) for k in cur])
    if not elems:
        elems.append({"k": "nav", "name": "parent", "consume": False, "fixed": None, "star": False})
    return {"lead": None, "elems": elems}, cur


@st.composite
def typed_exprs(draw):
    paths = [draw(typed_paths(1))[0] for _ in range(draw(st.sampled_from([1, 1, 2, 3])))]
    return {"flags": draw(st.sampled_from(["", "", "+p:"])), "paths": paths}


NAME_POOL = None


def _names():
    global NAME_POOL
    if NAME_POOL is None:
        import itertools

        NAME_POOL = [[a] for a in M.NAMES + ["zz"]] + [list(t) for t in itertools.product(M.NAMES, repeat=2)] + \
                    [list(t) for t in itertools.product(M.NAMES[:2], repeat=3)]
    return NAME_POOL


def evaluate(case):
    from arpeggio import NoMatch

    if case.get("kind") == "reflist":
        return eval_reflist(case)
    from textx import textx_isinstance
    from textx.exceptions import TextXError
    from textx.scoping import rrel

    out = Outcome()
    expr = case["expr"]
    src = G.to_text(expr)
    if R.mixed_leading_star(expr):
        out.inconclusive = "excluded_mixed_leading_star"
        return out
    # every fourth (expression, model) pair is evaluated on user classes whose instances are falsy
    falsy = case.get("falsy", len(src) % 4 == 0)
    mm = _mm(falsy)
    if falsy:
        out.cls("falsy_user_class_instances")
    text, root = M.build_class_model(case["model"])
    try:
        model = mm.model_from_str(text)
    except TextXError as e:
        return out.add("model_rejected", f"{text!r}: {e}")
    M.bind(root, model)
    try:
        tree = rrel.parse(src)
    except NoMatch:
        out.inconclusive = "source_rejected"
        return out
    cls = mm["Cls"]
    use_proxy = "p" in expr["flags"]

    def type_of(o, tname):
        return textx_isinstance(o, mm[tname])

    def conforms(o):
        return not isinstance(o, (str, int, float, bool)) and textx_isinstance(o, cls)

    out.cls("flags:" + (expr["flags"] or "none"))
    for mark, lab in (("*", "star"), (",", "comma"), ("^", "caret"), ("parent(", "parent"), ("'~", "fixed"), ("..", "dots")):
        if mark in src:
            out.cls("has_" + lab)
    out.sample = {"rrel": src, "model": text}
    interesting = ("*" in src) or ("," in src) or ("^" in src)
    hits = 0
    multi_hits = 0
    starts = [n.obj for n in root.walk()][:14]
    for start in starts:
        for names in _names():
            sem = R.Sem(names, conforms, type_of)
            alts = [sem.results(alt, start) for alt in expr["paths"]]
            first = next((a for a in alts if a), None)
            try:
                got = rrel.find(start, ".".join(names), tree, cls, use_proxy=use_proxy)
            except RecursionError:
                raise
            if first is None:
                if got is not None:
                    tgt = got._tx_obj if use_proxy else got
                    return out.add("soundness/result_without_derivation",
                                   f"rrel={src!r} start={start!r} name={'.'.join(names)} got {tgt!r}; model={text!r}")
                continue
            hits += 1
            if len(names) >= 2:
                multi_hits += 1
            if got is None:
                shape = "star" if "*" in src else "plain"
                return out.add(f"completeness/{shape}",
                               f"rrel={src!r} start={start!r} name={'.'.join(names)}: reference finds "
                               f"{[repr(o) for o, _ in first][:3]}, find() returned None; model={text!r}")
            tgt = got._tx_obj if use_proxy else got
            if not any(o is tgt for o, _ in first):
                anyalt = any(o is tgt for a in alts for o, _ in a)
                b = "precedence/later_alternative_won" if anyalt else "soundness/not_a_final_state"
                return out.add(b, f"rrel={src!r} start={start!r} name={'.'.join(names)} got {tgt!r}, first non-empty "
                               f"alternative allows {[repr(o) for o, _ in first][:4]}; model={text!r}")
            if use_proxy:
                gp = list(got._tx_path)

                def ends_in_target(o, p):
                    # the named objects traversed, ending in the target
                    return list(p) if (p and p[-1] is o) else list(p) + [o]

                if not any(o is tgt and len(ends_in_target(o, p)) == len(gp)
                           and all(x is y for x, y in zip(ends_in_target(o, p), gp)) for o, p in first):
                    return out.add("proxy_path", f"rrel={src!r} start={start!r} name={'.'.join(names)}: _tx_path "
                                   f"{gp!r} is not the path of a derivation {[p for _, p in first][:3]}; model={text!r}")
    out.cls("pair_with_hits" if hits else "pair_without_hits")
    out.nontrivial = interesting and multi_hits > 0

    # (2) end to end: the expression in the grammar of Attr.type, reference text = e2e_name
    e2e = end_to_end(case, expr, src)
    if e2e:
        out.add(*e2e)
    # (3) the same provider object serving two attributes with different name separators
    out.cls("shared_provider_two_separators")
    e2s = end_to_end_shared(case, expr, src)
    if e2s:
        out.add(*e2s)
    return out


_E2E = {}


def end_to_end(case, expr, src):
    """grammar variant with the expression under test on a dedicated reference `probe=[Cls:QN|expr]`
    of a Probe object placed in the first package that has room; compared with the reference semantics
    evaluated on the loaded model of the *same* text (references resolve on final values)."""
    from textx import metamodel_from_str, textx_isinstance
    from textx.exceptions import TextXError, TextXSemanticError

    split = case["split"]
    names = case["e2e_name"]
    key = (src, split)
    g = M.GRAMMAR.replace("(packages+=Package | classes+=Cls)*", "(packages+=Package | classes+=Cls | probes+=Probe)*")
    g += f"\nProbe: 'probe' ref=[Cls:QN|{src}];\nQN[split='{split}']: ID('{split}'ID)*;\n"
    try:
        mm = _E2E.get(key) or metamodel_from_str(g)
    except TextXError as e:
        return ("e2e/grammar_rejected", f"{src!r}: {e}")
    if len(_E2E) < 64:
        _E2E[key] = mm
    text, root = M.build_class_model(case["model"])
    # put the probe at the end of the first top-level package
    first_pkg = root.order[0]
    close = first_pkg.span[1] - 1
    ptext = text[:close] + " probe " + split.join(names) + " " + text[close:]

    # reference: the same text loaded with a grammar in which the probe is not a reference (always
    # loads); the reference semantics is evaluated from that probe object
    g2 = g.replace(f"ref=[Cls:QN|{src}]", "txt=QN")
    mm2 = _E2E.get(("plain", split)) or metamodel_from_str(g2)
    _E2E[("plain", split)] = mm2
    m2 = mm2.model_from_str(ptext)
    M.bind(root, m2)
    node_of = {id(n.obj): n for n in root.walk()}
    probe2 = m2.packages[0].probes[0]
    sem = R.Sem(names, lambda o: textx_isinstance(o, mm2["Cls"]), lambda o, t: textx_isinstance(o, mm2[t]))
    alts = [sem.results(alt, probe2) for alt in expr["paths"]]
    first = next((a for a in alts if a), None)
    try:
        model = mm.model_from_str(ptext)
    except TextXSemanticError as e:
        if e.err_type != "Unknown object":
            return ("e2e/unexpected_error", f"rrel={src!r} text={ptext!r}: {e}")
        if first is not None:
            return ("e2e/completeness", f"rrel={src!r} text={ptext!r}: reference resolves to "
                    f"{[node_of[id(o)].abs_name() for o, _ in first if id(o) in node_of][:3]}, textX: {e.message}")
        return None
    except TextXError as e:
        return ("e2e/model_rejected", f"{ptext!r}: {e}")
    got = model.packages[0].probes[0].ref
    tgt = got._tx_obj if "p" in expr["flags"] else got
    M.bind(root, model)
    node1 = {id(n.obj): n for n in root.walk()}
    tnode = node1.get(id(tgt))
    if first is None:
        return ("e2e/soundness", f"rrel={src!r} text={ptext!r}: resolved to {tgt!r} without a derivation")
    allowed = [node_of.get(id(o)) for o, _ in first]
    if tnode is None or not any(a is tnode for a in allowed):
        return ("e2e/wrong_target", f"rrel={src!r} text={ptext!r}: resolved to {tgt!r}, admissible "
                f"{[a.abs_name() for a in allowed if a is not None][:4]}")
    return None


_E2E_SHARED = {}


def end_to_end_shared(case, expr, src):
    """one RREL provider object (create_rrel_scope_provider(src)) registered for two reference attributes whose match
    rules split names differently (QN: '.', QN2: '/'); both references occur in one model, in either order.  Each
    must resolve as the reference semantics says for its own text - the provider may keep nothing from the other."""
    from textx import metamodel_from_str, textx_isinstance
    from textx.exceptions import TextXError, TextXSemanticError
    from textx.scoping.rrel import create_rrel_scope_provider

    names = case["e2e_name"]
    # whenever the first top-level package holds a class, the scenario runs with the plain expression
    # 'packages.classes' and that class's two-part name: both references then resolve by construction, and the check
    # is about the provider object's state only (the generated expression has its own end-to-end run above)
    _, root0 = M.build_class_model(case["model"])
    pk = root0.order[0] if root0.order else None
    cl0 = next((n for n in pk.order if n.kind == "Cls"), None) if pk is not None and pk.kind == "Package" else None
    if cl0 is not None:
        names = [pk.name, cl0.name]
        src = "packages.classes"
        nav = lambda n: {"k": "nav", "name": n, "consume": True, "fixed": None, "star": False}  # noqa: E731
        expr = {"flags": "", "paths": [{"lead": None, "elems": [nav("packages"), nav("classes")]}]}
    elif len(names) < 2:
        return None
    order = [".", "/"] if case["split"] == "." else ["/", "."]
    body = "(packages+=Package | classes+=Cls | probes+=Probe | probes2+=Probe2)*"
    g = M.GRAMMAR.replace("(packages+=Package | classes+=Cls)*", body)
    tail = "\nQN[split='.']: ID('.'ID)*;\nQN2[split='/']: ID('/'ID)*;\n"
    gref = g + "\nProbe: 'probe' ref=[Cls:QN];\nProbe2: 'probe2' ref=[Cls:QN2];" + tail
    gplain = g + "\nProbe: 'probe' txt=QN;\nProbe2: 'probe2' txt=QN2;" + tail
    try:
        mm = _E2E_SHARED.get(src)
        if mm is None:
            mm = metamodel_from_str(gref)
            sp = create_rrel_scope_provider(src)
            mm.register_scope_providers({"Probe.ref": sp, "Probe2.ref": sp})
            if len(_E2E_SHARED) < 64:
                _E2E_SHARED[src] = mm
        mm2 = _E2E_SHARED.get("plain")
        if mm2 is None:
            mm2 = _E2E_SHARED["plain"] = metamodel_from_str(gplain)
    except TextXError as e:
        return ("e2e_shared/grammar_rejected", f"{src!r}: {e}")
    text, root = M.build_class_model(case["model"])
    first_pkg = root.order[0]
    close = first_pkg.span[1] - 1
    probes = " ".join(("probe " if sp_ == "." else "probe2 ") + sp_.join(names) for sp_ in order)
    ptext = text[:close] + " " + probes + " " + text[close:]
    m2 = mm2.model_from_str(ptext)
    M.bind(root, m2)
    node_of = {id(n.obj): n for n in root.walk()}
    sem = R.Sem(names, lambda o: textx_isinstance(o, mm2["Cls"]), lambda o, t: textx_isinstance(o, mm2[t]))
    exp = {}
    for kind, attr in ((".", "probes"), ("/", "probes2")):
        p2 = getattr(m2.packages[0], attr)[0]
        alts = [sem.results(alt, p2) for alt in expr["paths"]]
        exp[kind] = next((a for a in alts if a), None)
    try:
        model = mm.model_from_str(ptext)
    except TextXSemanticError as e:
        if e.err_type != "Unknown object":
            return ("e2e_shared/unexpected_error", f"rrel={src!r} text={ptext!r}: {e}")
        if all(v is not None for v in exp.values()):
            return ("e2e_shared/completeness", f"rrel={src!r} text={ptext!r}: both references resolve by the semantics, "
                    f"textX: {e.message}")
        return None
    except TextXError as e:
        return ("e2e_shared/model_rejected", f"{ptext!r}: {e}")
    M.bind(root, model)
    node1 = {id(n.obj): n for n in root.walk()}
    for kind, attr in ((".", "probes"), ("/", "probes2")):
        got = getattr(model.packages[0], attr)[0].ref
        tgt = got._tx_obj if "p" in expr["flags"] else got
        first = exp[kind]
        if first is None:
            return ("e2e_shared/soundness", f"rrel={src!r} text={ptext!r}: {kind!r} reference resolved to {tgt!r} "
                    f"without a derivation")
        allowed = [node_of.get(id(o)) for o, _ in first]
        tnode = node1.get(id(tgt))
        if tnode is None or not any(a is tnode for a in allowed):
            return ("e2e_shared/wrong_target", f"rrel={src!r} text={ptext!r}: {kind!r} reference resolved to {tgt!r}")
    return None


# (4) RREL navigation through a multi-valued reference attribute whose entries are resolved in different passes -----
REFLIST_GRAMMAR = r"""
Model: classes+=Class calls*=Call aliases*=Alias;
Class: 'class' name=ID ('extends' extends+=[Class:ID|classes, aliases.~target][','])? '{' methods*=Method '}';
Method: 'def' name=ID ';';
Call: 'fqcall' fm=[Method:FQN|classes.~extends*.methods] ';';
Alias: 'alias' name=ID '=' target=[Class] ';';
FQN: ID ('.' ID)*;
"""
_REFLIST_MM = None


@st.composite
def reflist_cases(draw):
    n = draw(st.integers(2, 4))
    classes = []
    for i in range(n):
        ext = draw(st.lists(st.tuples(st.integers(0, n - 1), st.booleans()).map(list), max_size=3))
        classes.append({"methods": draw(st.lists(st.sampled_from(["m0", "m1", "m2"]), max_size=2, unique=True)), "extends": ext})
    calls = draw(st.lists(st.tuples(st.just("fqcall"), st.integers(0, n - 1),
                                    st.sampled_from(["m0", "m1", "m2"])).map(list), min_size=1, max_size=3))
    return {"kind": "reflist", "classes": classes, "calls": calls, "default": None}


def eval_reflist(case):
    from textx import metamodel_from_str
    from textx.exceptions import TextXSemanticError

    global _REFLIST_MM
    out = Outcome()
    if _REFLIST_MM is None:
        _REFLIST_MM = metamodel_from_str(REFLIST_GRAMMAR)
    cl = case["classes"]
    n = len(cl)
    lines = []
    via_alias = set()
    for i, c in enumerate(cl):
        ext = []
        for j, alias in c["extends"]:
            if alias:
                via_alias.add(j)
                ext.append(f"x{j}")
            else:
                ext.append(f"c{j}")
        lines.append(f"class c{i} " + ("extends " + ", ".join(ext) + " " if ext else "") + "{ " +
                     " ".join(f"def {m};" for m in c["methods"]) + " }")
    if case["default"]:
        lines.append(f"default def {case['default']};")
    for kind, i, m in case["calls"]:
        lines.append(f"{kind} c{i}.{m};")
    for j in sorted(via_alias):
        lines.append(f"alias x{j} = c{j};")
    text = "\n".join(lines) + "\n"
    out.sample = {"kind": "reflist", "text": text}

    def reach(i):
        seen, todo = [], [i]
        while todo:
            k = todo.pop(0)
            if k in seen:
                continue
            seen.append(k)
            todo += [j for j, _ in cl[k]["extends"]]
        return seen

    expected = []
    alias_needed = False
    for kind, i, m in case["calls"]:
        owners = [k for k in reach(i) if m in cl[k]["methods"]]
        direct = set()
        todo = [i]
        while todo:  # reachable without passing an alias entry
            k = todo.pop()
            if k in direct:
                continue
            direct.add(k)
            todo += [j for j, a in cl[k]["extends"] if not a]
        if owners and not any(k in direct for k in owners):
            alias_needed = True
        if owners:
            expected.append(("class", owners))
        elif kind == "call" and case["default"] == m:
            expected.append(("default",))
        else:
            expected.append(("unknown", m))
    out.cls("kind:reflist")
    if alias_needed:
        out.cls("target_only_through_postponed_entry")
    out.nontrivial = alias_needed
    first_err = next((e for e in expected if e[0] == "unknown"), None)
    try:
        model = _REFLIST_MM.model_from_str(text)
    except TextXSemanticError as e:
        if first_err is None:
            return out.add("reflist/completeness" + ("/through_postponed_entry" if alias_needed else ""),
                           f"text={text!r}: every call resolves by the semantics, textX: {e}")
        return out
    if first_err is not None:
        return out.add("reflist/soundness", f"text={text!r}: accepted although {first_err} has no target")
    for (kind, i, m), exp, call in zip(case["calls"], expected, model.calls):
        got = call.fm
        if exp[0] == "class":
            ok = any(got is x for k in exp[1] for x in model.classes[k].methods if x.name == m)
            if not ok:
                where = "defaults" if any(got is d for c in model.calls for d in getattr(c, "defaults", [])) else repr(got)
                out.add("reflist/wrong_target" + ("/through_postponed_entry" if alias_needed else ""),
                        f"text={text!r}: {kind} c{i}.{m} resolved to {where}, admissible: method {m} of classes {exp[1]}")
        else:
            if not any(got is d for c in model.calls for d in getattr(c, "defaults", [])):
                out.add("reflist/wrong_target", f"text={text!r}: {kind} c{i}.{m} should resolve to the default method")
    return out
