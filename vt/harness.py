"""Case loop shared by all checks: collect discrepancies, bucket them, keep going,
shrink one representative per unknown bucket afterwards.

A check module (vt/checks/cNN.py) provides

    ID, LEVEL, RULE, ASSUMPTIONS, CASES = {"quick": n, "thorough": n}
    strategy(tier)               -> Hypothesis strategy of a JSON-serialisable case  (optional)
    enumerate_cases(tier)        -> iterator of JSON-serialisable cases              (optional)
    evaluate(case)               -> Outcome

`evaluate` never asserts; it returns what it saw.  An exception escaping from
`evaluate` whose traceback passes through the code under test is a discrepancy
(bucket crash:<Type>@<file>:<func>), one raised purely inside /verif code is a
harness error (exit 2, never a verdict).
"""
from __future__ import annotations

import hashlib
import json
import os
import signal
import sys
import time
import traceback

REPO = os.path.realpath(os.environ.get("VERIF_REPO", "/repo"))
VERIF = os.path.dirname(os.path.dirname(os.path.realpath(__file__)))
CASE_TIMEOUT_S = 20


class Outcome:
    __slots__ = ("disc", "nontrivial", "classes", "sample", "inconclusive")

    def __init__(self):
        self.disc = []  # list of (bucket, detail)
        self.nontrivial = False
        self.classes = []
        self.sample = None
        self.inconclusive = None  # reason string when the case could not be decided

    def add(self, bucket, detail=""):
        self.disc.append((str(bucket), str(detail)[:2000]))
        return self

    def cls(self, *labels):
        self.classes.extend(labels)
        return self


class CaseTimeout(BaseException):
    pass


class HarnessError(Exception):
    pass


class BudgetStop(BaseException):
    pass


def assert_repo():
    import textx

    f = os.path.realpath(textx.__file__)
    if not f.startswith(REPO + os.sep):
        raise HarnessError(f"textx imported from {f}, expected under {REPO}")


def canon(case):
    return json.dumps(case, sort_keys=True, ensure_ascii=True, default=str)


def case_hash(case):
    return hashlib.sha1(canon(case).encode()).hexdigest()[:16]


def under_test_frame(tb):
    """innermost traceback frame that lies in the code under test (textx or arpeggio)"""
    found = None
    for fs in traceback.extract_tb(tb):
        fn = os.path.realpath(fs.filename)
        if fn.startswith(REPO + os.sep + "textx" + os.sep):
            found = ("textx/" + os.path.relpath(fn, REPO + "/textx"), fs.name)
        elif os.sep + "arpeggio" + os.sep in fn:
            found = ("arpeggio/" + os.path.basename(fn), fs.name)
    return found


def exc_bucket(e, prefix="crash"):
    fr = under_test_frame(e.__traceback__)
    where = f"{fr[0]}:{fr[1]}" if fr else "?"
    return f"{prefix}:{type(e).__name__}@{where}"


class GenerationTimeout(BaseException):
    pass


GEN_TIMEOUT_S = 90  # no generated case needs that long to be *built*: a worker stuck between two cases gives up
_phase = ["gen"]


def _alarm(signum, frame):
    if _phase[0] == "case":
        raise CaseTimeout()
    raise GenerationTimeout()


def disarm():
    """switch the watchdog timer off (for processes that evaluate single cases and then do something else)"""
    signal.setitimer(signal.ITIMER_REAL, 0)
    _phase[0] = "gen"


def run_case(mod, case):
    """evaluate one case under the watchdog; returns Outcome"""
    signal.signal(signal.SIGALRM, _alarm)
    _phase[0] = "case"
    signal.setitimer(signal.ITIMER_REAL, CASE_TIMEOUT_S)
    try:
        out = mod.evaluate(case)
    except CaseTimeout:
        out = Outcome()
        out.inconclusive = "case_timeout"
    except RecursionError as e:
        if under_test_frame(e.__traceback__):
            out = Outcome().add(exc_bucket(e), repr(e))
        else:
            raise
    except Exception as e:  # noqa: BLE001
        if under_test_frame(e.__traceback__):
            out = Outcome().add(exc_bucket(e), "".join(traceback.format_exception_only(type(e), e)).strip())
        else:
            raise
    finally:
        # from here until the next case starts the generation watchdog is armed
        _phase[0] = "gen"
        signal.setitimer(signal.ITIMER_REAL, GEN_TIMEOUT_S)
    if not isinstance(out, Outcome):
        raise HarnessError("evaluate() must return an Outcome")
    return out


class Collector:
    """per-worker accumulation, JSON-serialisable via .to_json()"""

    MAX_SAMPLES = 6

    def __init__(self):
        self.evaluations = 0
        self.nontrivial_hashes = set()
        self.classes = {}
        self.buckets = {}  # bucket -> {"count", "first_case", "detail", "origin"}
        self.samples = []
        self.inconclusive = {}
        self.budget_exhausted = False
        self.exhaustive_done = None

    def record(self, case, out, origin):
        self.evaluations += 1
        if out.inconclusive:
            self.inconclusive[out.inconclusive] = self.inconclusive.get(out.inconclusive, 0) + 1
            return
        for c in out.classes:
            self.classes[c] = self.classes.get(c, 0) + 1
        if out.nontrivial:
            h = case_hash(case)
            if h not in self.nontrivial_hashes:
                self.nontrivial_hashes.add(h)
                n = len(self.nontrivial_hashes)
                # keep the 1st, 2nd, 4th, 8th ... distinct non-trivial case as samples
                if n & (n - 1) == 0:
                    s = out.sample if out.sample is not None else case
                    self.samples.append(s)
                    if len(self.samples) > self.MAX_SAMPLES:
                        self.samples.pop(1)
        seen = set()
        for b, d in out.disc:
            if b in seen:
                continue
            seen.add(b)
            e = self.buckets.get(b)
            if e is None:
                self.buckets[b] = {"count": 1, "first_case": case, "detail": d, "origin": origin}
            else:
                e["count"] += 1
                # prefer the smallest witness seen
                if len(canon(case)) < len(canon(e["first_case"])):
                    e["first_case"], e["detail"], e["origin"] = case, d, origin

    def to_json(self):
        return {
            "evaluations": self.evaluations,
            "nontrivial_hashes": sorted(self.nontrivial_hashes),
            "classes": self.classes,
            "buckets": self.buckets,
            "samples": self.samples,
            "inconclusive": self.inconclusive,
            "budget_exhausted": self.budget_exhausted,
            "exhaustive_done": self.exhaustive_done,
        }


def hyp_settings(n, shrink=False):
    from hypothesis import HealthCheck, Phase, settings

    return settings(
        max_examples=max(1, n),
        database=None,
        deadline=None,
        derandomize=False,
        report_multiple_bugs=False,
        suppress_health_check=list(HealthCheck),
        phases=[Phase.generate, Phase.shrink] if shrink else [Phase.generate],
        print_blob=False,
    )


def shard_seed(seed, ident, k):
    h = hashlib.sha1(f"{seed}/{ident}/{k}".encode()).digest()
    return int.from_bytes(h[:7], "big")


def collect(mod, tier, seed, shard, nshards, budget_s):
    """run enumerated and generated cases of one shard; returns Collector"""
    import hypothesis
    from hypothesis import given

    col = Collector()
    t0 = time.time()

    enum = getattr(mod, "enumerate_cases", None)
    if enum is not None:
        done = True
        try:
            for i, case in enumerate(enum(tier)):
                if i % nshards != shard:
                    continue
                if time.time() - t0 > budget_s:
                    col.budget_exhausted = True
                    done = False
                    break
                col.record(case, run_case(mod, case), "enum")
        except GenerationTimeout:
            col.budget_exhausted = True
            done = False
            col.inconclusive["generation_timeout"] = col.inconclusive.get("generation_timeout", 0) + 1
        finally:
            signal.setitimer(signal.ITIMER_REAL, 0)
        col.exhaustive_done = done

    strat_f = getattr(mod, "strategy", None)
    n_total = mod.CASES.get(tier, 0)
    if strat_f is not None and n_total > 0:
        n = max(1, n_total // nshards)

        def body(case):
            if time.time() - t0 > budget_s:
                col.budget_exhausted = True
                raise BudgetStop()
            col.record(case, run_case(mod, case), "gen")

        test = given(strat_f(tier))(body)
        test = hyp_settings(n)(test)
        test = hypothesis.seed(shard_seed(seed, mod.ID, shard))(test)
        signal.signal(signal.SIGALRM, _alarm)
        _phase[0] = "gen"
        signal.setitimer(signal.ITIMER_REAL, GEN_TIMEOUT_S)
        try:
            test()
        except BudgetStop:
            pass
        except GenerationTimeout:
            # stuck while building a case (not while evaluating one): keep what was collected, say so
            col.budget_exhausted = True
            col.inconclusive["generation_timeout"] = col.inconclusive.get("generation_timeout", 0) + 1
        finally:
            signal.setitimer(signal.ITIMER_REAL, 0)
    signal.setitimer(signal.ITIMER_REAL, 0)
    return col


def shrink(mod, tier, seed, shard, nshards, bucket, outpath, first_case):
    """re-run the same generation with the same seed, failing on `bucket`, so that
    Hypothesis shrinks it; the smallest witness seen so far is kept in `outpath`
    (the parent may kill this process when its time budget is over)."""
    import hypothesis
    from hypothesis import given

    best = {"case": first_case, "size": len(canon(first_case))}

    def save(case, detail):
        with open(outpath + ".tmp", "w") as f:
            json.dump({"case": case, "detail": detail}, f)
        os.replace(outpath + ".tmp", outpath)

    save(first_case, "")
    n = max(1, mod.CASES.get(tier, 0) // nshards)

    class Hit(Exception):
        pass

    def body(case):
        out = run_case(mod, case)
        for b, d in out.disc:
            if b == bucket:
                sz = len(canon(case))
                if sz <= best["size"]:
                    best["case"], best["size"] = case, sz
                    save(case, d)
                raise Hit()

    test = given(mod.strategy(tier))(body)
    test = hyp_settings(n, shrink=True)(test)
    test = hypothesis.seed(shard_seed(seed, mod.ID, shard))(test)
    try:
        test()
    except Hit:
        pass
    except BaseException as e:  # hypothesis wraps/flaky etc.: keep best so far
        sys.stderr.write(f"shrink ended with {type(e).__name__}: {e}\n")
