"""known_findings.json matcher.  The file is committed and read-only at run time.

Entry: {"id", "property", "status": "known"|"fixed", "bucket", "what", "replay"?, "commit"?, "why_not_fixed"?}
Only status == "known" entries match anything; a discrepancy is attributed to an
entry iff its bucket key is *equal* to the entry's bucket.  "fixed" entries are
documentation plus a regression input and suppress nothing.
"""
import json
import os

from vt.harness import VERIF


class Known:
    def __init__(self, ident):
        p = os.path.join(VERIF, "known_findings.json")
        entries = json.load(open(p)) if os.path.exists(p) else []
        self.entries = [e for e in entries if e.get("property") == ident and e.get("status") == "known"]
        self.by_bucket = {e["bucket"]: e for e in self.entries}

    def is_known(self, bucket):
        return bucket in self.by_bucket

    def id_of(self, bucket):
        return self.by_bucket[bucket]["id"]

    def what(self, bucket):
        e = self.by_bucket[bucket]
        return f"{e['id']}: {e['what']}"

    def bucket_of(self, fid):
        """set of buckets recorded for a finding (a finding may show through several narrow buckets)"""
        bs = {e["bucket"] for e in self.entries if e["id"] == fid}
        return bs or None

    def listed(self):
        seen = []
        for e in self.entries:
            if e["id"] not in [s[0] for s in seen]:
                seen.append((e["id"], e["what"]))
        return seen
