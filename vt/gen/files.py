"""Generated directories of model files with an import digraph (cycles, diamonds, self imports, glob
patterns, a search-path directory) and cross-file references; shared by C17 C18 C27 C28.

case := {"n": files, "edges": [[i, j], ...] (file i imports file j, in written order), "ndefs": [..per file..],
         "uses": [[file, target file, def index], ...], "glob": bool, "lib": [files living in the search-path
         directory], "layout": [...]}
File i is 'g<i>.m' when it takes part in the glob group, else 'f<i>.m'; with "glob" an import of any g-file is
written as the pattern 'g*.m' (so it loads every g-file).
"""
import os

from hypothesis import strategies as st

GRAMMAR = r"""
Model: imports*=Import defs*=Def uses*=Use;
Import: 'import' importURI=STRING;
Def: 'def' name=ID ('{' subs+=Def '}')?;
Use: 'use' name=ID '->' ref=[Def%s] (',' more+=[Def%s][','])?;
Comment: /\/\/.*?$/;
"""
GRAMMAR_FQN = GRAMMAR.replace("Comment:", "FQN: ID('.'ID)*;\nComment:")


def grammar(ref_suffix="", fqn=False):
    return (GRAMMAR_FQN if fqn else GRAMMAR) % (ref_suffix, ref_suffix)


@st.composite
def file_graphs(draw, max_files=5, allow_glob=True, allow_lib=True):
    n = draw(st.integers(1, max_files))
    edges = []
    for i in range(n):
        k = draw(st.integers(0, min(3, n)))
        targets = draw(st.lists(st.integers(0, n - 1), min_size=k, max_size=k, unique=True))
        edges += [[i, j] for j in targets]
    ndefs = [draw(st.integers(1, 3)) for _ in range(n)]
    uses = []
    for i in range(n):
        visible = [i] + [j for a, j in edges if a == i]
        for _ in range(draw(st.integers(0, 3))):
            t = draw(st.sampled_from(visible))
            uses.append([i, t, draw(st.integers(0, ndefs[t] - 1))])
    glob = allow_glob and n >= 2 and draw(st.integers(0, 4)) == 0
    ggroup = sorted(draw(st.lists(st.integers(1, n - 1), min_size=1, max_size=2, unique=True))) if glob else []
    lib = []
    if allow_lib and not glob and n >= 2 and draw(st.integers(0, 4)) == 0:
        lib = sorted(draw(st.lists(st.integers(1, n - 1), min_size=1, max_size=2, unique=True)))
    return {"n": n, "edges": edges, "ndefs": ndefs, "uses": uses, "ggroup": ggroup, "lib": lib}


def fname(case, i):
    return ("g%d.m" if i in case["ggroup"] else "f%d.m") % i


def fpath(case, root, i):
    return os.path.join(root, "lib", fname(case, i)) if i in case["lib"] else os.path.join(root, fname(case, i))


def imports_of(case, i):
    """effective list of imported files of file i, in the order they get loaded"""
    out = []
    seen_glob = False
    for a, j in case["edges"]:
        if a != i:
            continue
        if j in case["ggroup"]:
            if not seen_glob:
                seen_glob = True
                out += [g for g in case["ggroup"]]
        else:
            out.append(j)
    res = []
    for j in out:
        if j not in res:
            res.append(j)
    return res


def closure(case, root):
    seen, todo = [], [root]
    while todo:
        x = todo.pop(0)
        if x in seen:
            continue
        seen.append(x)
        todo += imports_of(case, x)
    return seen


def texts(case, fqn=False, extra=None):
    """file index -> text; `extra` maps file index -> text appended (fault injection)"""
    out = {}
    for i in range(case["n"]):
        t = ""
        seen_glob = False
        for a, j in case["edges"]:
            if a != i:
                continue
            if j in case["ggroup"]:
                if seen_glob:
                    continue
                seen_glob = True
                t += 'import "g*.m"\n'
            else:
                t += f'import "{fname(case, j)}"\n'
        for d in range(case["ndefs"][i]):
            t += f"def d{i}_{d} {{ def s{i}_{d} }}\n"
        ex = (extra or {}).get(i) or ("", "")
        if isinstance(ex, str):
            ex = ("", ex)
        t += ex[0]  # additional definitions
        k = 0
        for f, tf, di in case["uses"]:
            if f == i:
                t += f"use u{i}_{k} -> d{tf}_{di}\n"
                k += 1
        t += ex[1]  # additional uses / injected faults
        out[i] = t
    return out


def write(case, root, fqn=False, extra=None):
    os.makedirs(os.path.join(root, "lib"), exist_ok=True)
    ts = texts(case, fqn, extra)
    for i, t in ts.items():
        with open(fpath(case, root, i), "w") as f:
            f.write(t)
    return ts


def features(case, root_file=0):
    cl = closure(case, root_file)
    feats = set()
    # cycle: some file of the closure reaches itself
    for x in cl:
        seen, todo = set(), list(imports_of(case, x))
        while todo:
            y = todo.pop()
            if y == x:
                feats.add("cycle")
                break
            if y in seen:
                continue
            seen.add(y)
            todo += imports_of(case, y)
    if any(a == b for a, b in case["edges"]):
        feats.add("self_import")
    indeg = {}
    for x in cl:
        for j in imports_of(case, x):
            indeg[j] = indeg.get(j, 0) + 1
    if any(v >= 2 for v in indeg.values()):
        feats.add("diamond")
    if case["ggroup"]:
        feats.add("glob")
    if case["lib"]:
        feats.add("search_path")
    return feats
