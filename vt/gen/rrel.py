"""RREL expression trees as JSON-able dicts, our own printer, and a structural
dump of textX's RREL tree objects (independent walk over the node classes)."""
from hypothesis import strategies as st

# AST:
#  expr  = {"flags": "", "paths": [path, ...]}
#  path  = {"lead": None | "^" | <int dots>, "elems": [elem, ...]}      elems may be [] only with a lead
#  elem  = {"k": "nav", "name", "consume": bool, "fixed": None|[quote, raw], "star": bool}
#        | {"k": "parent", "type", "star"} | {"k": "br", "paths": [...], "star"}

NAMES = ["a", "b", "c", "parent", "p1", "_x", "élan", "packages", "classes"]
TYPES = ["A", "B", "Package", "Cls"]
FLAGS = ["", "", "+m:", "+p:", "+mp:", "+pm:"]


def fixed_names():
    """[quote, raw content] such that quote+raw+quote is exactly one string_value token
    (only the delimiter is escaped; no trailing backslash)"""

    def build(q):
        other = '"' if q == "'" else "'"
        atom = st.one_of(
            st.sampled_from(list("abX _-.") + ["é"]),
            st.just(other),
            st.just("\\" + q),
            st.sampled_from(["\\a", "\\n", "\\\\"]),
        )
        def close(xs):
            raw = "".join(xs)
            return [q, raw + "a" if raw.endswith("\\") else raw]  # no trailing backslash (it would escape the delimiter)

        return st.lists(atom, min_size=0, max_size=5).map(close)

    return st.sampled_from(["'", '"']).flatmap(build)


def elems(depth, names=NAMES, types=TYPES, fixed=True):
    nav = st.fixed_dictionaries(
        {"k": st.just("nav"), "name": st.sampled_from(names), "consume": st.booleans(),
         "fixed": (st.none() | fixed_names()) if fixed else st.none(), "star": st.booleans()}
    ).map(lambda d: dict(d, consume=False) if d["fixed"] is not None else d)
    par = st.fixed_dictionaries({"k": st.just("parent"), "type": st.sampled_from(types), "star": st.booleans()})
    alts = [nav, nav, nav, par]
    if depth > 0:
        br = st.fixed_dictionaries(
            {"k": st.just("br"), "paths": st.lists(paths(depth - 1, names, types, fixed, 2), min_size=1, max_size=2),
             "star": st.booleans()})
        alts.append(br)
    return st.one_of(*alts)


def paths(depth, names=NAMES, types=TYPES, fixed=True, max_elems=3):
    lead = st.one_of(st.none(), st.none(), st.just("^"), st.integers(1, 3))

    def mk(lead_v):
        mn = 0 if lead_v is not None else 1
        return st.lists(elems(depth, names, types, fixed), min_size=mn, max_size=max_elems).map(
            lambda es: {"lead": lead_v, "elems": es})

    return lead.flatmap(mk)


def exprs(depth=2, names=NAMES, types=TYPES, flags=FLAGS, fixed=True):
    return st.fixed_dictionaries(
        {"flags": st.sampled_from(flags), "paths": st.lists(paths(depth, names, types, fixed), min_size=1, max_size=3)})


def p_elem(e, sp):
    if e["k"] == "nav":
        if e["fixed"] is not None:
            q, raw = e["fixed"]
            s = q + raw + q + sp + "~" + sp + e["name"]
        else:
            s = e["name"] if e["consume"] else "~" + sp + e["name"]
    elif e["k"] == "parent":
        s = "parent" + sp + "(" + sp + e["type"] + sp + ")"
    else:
        s = "(" + sp + p_paths(e["paths"], sp) + sp + ")"
    return s + (sp + "*" if e["star"] else "")


def p_path(p, sp):
    lead = p["lead"]
    body = (sp + "." + sp).join(p_elem(e, sp) for e in p["elems"])
    if lead is None:
        return body
    if lead == "^":
        return "^" + sp + body
    return "." * lead + sp + body


def p_paths(ps, sp):
    return (sp + "," + sp).join(p_path(p, sp) for p in ps)


def to_text(expr, sp=""):
    return expr["flags"] + sp + p_paths(expr["paths"], sp)


def count_nodes(expr):
    def ce(e):
        return 1 + (sum(cp(p) for p in e["paths"]) if e["k"] == "br" else 0)

    def cp(p):
        return 1 + sum(ce(e) for e in p["elems"])

    return sum(cp(p) for p in expr["paths"])


def dump_tree(t):
    """structural dump of a textX RREL tree by class name and public fields"""
    n = type(t).__name__
    if n == "RRELExpression":
        return ["Expr", t.flags, bool(t.importURI), bool(t.use_proxy), dump_tree(t.seq)]
    if n == "RRELSequence":
        return ["Seq", [dump_tree(p) for p in t.paths]]
    if n == "RRELPath":
        return ["Path", [dump_tree(e) for e in t.path_elements]]
    if n == "RRELZeroOrMore":
        return ["Star", dump_tree(t.path_element)]
    if n == "RRELBrackets":
        return ["Br", dump_tree(t.seq)]
    if n == "RRELDots":
        return ["Dots", t.num]
    if n == "RRELParent":
        return ["Parent", t.type]
    if n == "RRELNavigation":
        return ["Nav", t.name, bool(t.consume_name), t.fixed_name]
    return ["?", n, repr(t)]
