"""Generated models of a small 'packages and classes' language family (configuration = the grammar,
generated thing = the model).  The generator keeps its own tree (Node objects with containment,
references and exact source spans) so that oracles never depend on textX to know what was written."""
from hypothesis import strategies as st

from vt.gen.writer import GAPS_COMMENT, Writer, layouts

NAMES = ["a", "b", "c", "d"]

# grammar of the family; {BASE_RREL}/{TYPE_RREL} are filled by the check
GRAMMAR = r"""
Model: packages*=Package;
Package: 'package' name=ID '{' (packages+=Package | classes+=Cls)* '}';
Cls: 'class' name=ID ('extends' base=[Cls:FQN|packages*.classes])? ('{' (attrs+=Attr | c+=Cls)* '}')?;
Attr: 'attr' name=ID (':' type=[Cls:FQN|packages*.classes])?;
FQN: ID('.'ID)*;
Comment: /\/\/.*?$/ | /\/\*(.|\n)*?\*\//;
"""


class Node:
    __slots__ = ("kind", "name", "parent", "kids", "refs", "span", "obj", "attr_of_parent", "order")

    def __init__(self, kind, name, parent, attr_of_parent=None):
        self.kind, self.name, self.parent = kind, name, parent
        self.kids = {}  # containment attribute -> [Node]
        self.refs = {}  # reference attribute -> Node (resolved target) | None
        self.span = None
        self.obj = None
        self.attr_of_parent = attr_of_parent
        self.order = []  # all containment children in textual order

    def children(self):
        for lst in self.kids.values():
            yield from lst

    def walk(self):
        yield self
        for c in self.children():
            yield from c.walk()

    def root(self):
        n = self
        while n.parent is not None:
            n = n.parent
        return n

    def abs_name(self):
        parts = []
        n = self
        while n.parent is not None:
            parts.append(n.name)
            n = n.parent
        return ".".join(reversed(parts))


def _cls(depth):
    kid = st.fixed_dictionaries({"k": st.just("Attr"), "typed": st.one_of(st.none(), st.integers(0, 20))})
    if depth > 0:
        kid = st.one_of(kid, kid, _cls(depth - 1))
    return st.fixed_dictionaries({
        "k": st.just("Cls"), "base": st.one_of(st.none(), st.integers(0, 20)),
        "kids": st.lists(kid, max_size=3), "perm": st.permutations(NAMES), "perm2": st.permutations(NAMES)})


def _pkg(depth):
    kid = _cls(1)
    if depth > 0:
        kid = st.one_of(kid, kid, _pkg(depth - 1))
    return st.fixed_dictionaries({"k": st.just("Package"), "kids": st.lists(kid, min_size=1, max_size=4),
                                  "perm": st.permutations(NAMES), "perm2": st.permutations(NAMES)})


def class_models(depth=2, max_top=3):
    return st.fixed_dictionaries({"packages": st.lists(_pkg(depth), min_size=1, max_size=max_top),
                                  "perm": st.permutations(NAMES), "layout": layouts()})


def build_class_model(case, gaps=GAPS_COMMENT):
    """returns (text, root Node).  Names are unique within each collection; `base`/`type` references
    point (by absolute dotted name) to package-level classes chosen by index, or are omitted."""
    root = Node("Model", None, None)
    pending = []  # (node, attr, index) resolved after the tree exists

    def skel(e, parent, attr, names):
        if not names:
            return None
        n = Node(e["k"], names.pop(0), parent, attr)
        parent.kids.setdefault(attr, []).append(n)
        parent.order.append(n)
        if e["k"] == "Package":
            free_p, free_c = list(e["perm"]), list(e["perm2"])
            for k in e["kids"]:
                if k["k"] == "Package":
                    skel(k, n, "packages", free_p)
                else:
                    skel(k, n, "classes", free_c)
        elif e["k"] == "Cls":
            if e["base"] is not None:
                pending.append((n, "base", e["base"]))
            free_a, free_c = list(e["perm"]), list(e["perm2"])
            for k in e["kids"]:
                if k["k"] == "Attr":
                    a = skel(k, n, "attrs", free_a)
                    if a is not None and k["typed"] is not None:
                        pending.append((a, "type", k["typed"]))
                else:
                    skel(k, n, "c", free_c)
        return n

    free = list(case["perm"])
    for p in case["packages"]:
        skel(p, root, "packages", free)
    top_classes = [n for n in root.walk() if n.kind == "Cls" and n.parent.kind == "Package"]
    for n, attr, idx in pending:
        n.refs[attr] = top_classes[idx % len(top_classes)] if top_classes else None

    w = Writer(case["layout"], gaps)

    def emit(n):
        w.begin(id(n))
        if n.kind == "Package":
            w.tok("package")
            w.tok(n.name)
            w.tok("{")
            for k in n.order:
                emit(k)
            w.tok("}")
        elif n.kind == "Cls":
            w.tok("class")
            w.tok(n.name)
            if n.refs.get("base") is not None:
                w.tok("extends")
                w.tok(n.refs["base"].abs_name())
            if n.kids:
                w.tok("{")
                for k in n.order:
                    emit(k)
                w.tok("}")
        else:
            w.tok("attr")
            w.tok(n.name)
            if n.refs.get("type") is not None:
                w.tok(":")
                w.tok(n.refs["type"].abs_name())
        w.end(id(n))
        n.span = tuple(w.spans[id(n)])

    for p in root.order:
        emit(p)
    return w.text(), root


def bind(root, model):
    """attach the loaded textX objects to the generator's nodes by containment path"""
    root.obj = model

    def go(n):
        for attr, lst in n.kids.items():
            objs = getattr(n.obj, attr)
            for k, o in zip(lst, objs):
                k.obj = o
                go(k)

    go(root)
