"""Text writer with generated layout and exact offset bookkeeping.

The layout of a case is a list of small ints (drawn by Hypothesis); each token gap
takes the next int (cyclically) as an index into the gap pool.  All-zero layout =
single blanks, so shrinking ends in the plainest text.  Offsets of every token and
the [start, end) span of every node are recorded while writing, so oracles never
have to re-scan the text.
"""
from hypothesis import strategies as st

GAPS_PLAIN = [" ", "  ", "\n", "\n  ", "\t", " \n\n "]
GAPS_COMMENT = [" ", "  ", "\n", "\n  ", "\t", " // c\n", " /* c */ ", "\n// x y\n", " /* a\n b */\n"]


def layouts(max_size=12, ngaps=len(GAPS_COMMENT)):
    return st.lists(st.integers(0, ngaps - 1), max_size=max_size)


class Writer:
    def __init__(self, layout=None, gaps=GAPS_PLAIN, lead=True):
        self.parts = []
        self.pos = 0
        self.layout = list(layout or [])
        self.gaps = gaps
        self.i = 0
        self.first = True
        self.lead = lead
        self.tokens = []  # (start, end, text)
        self.spans = {}  # key -> [start, end]
        self.open = []

    def _gap(self):
        if not self.layout:
            g = " "
        else:
            g = self.gaps[self.layout[self.i % len(self.layout)] % len(self.gaps)]
            self.i += 1
        return g

    def raw(self, s):
        self.parts.append(s)
        self.pos += len(s)

    def tok(self, s, glue=False):
        """write one token preceded by a gap (no gap before the very first token unless lead)"""
        if self.first:
            self.first = False
            if self.lead and self.layout:
                self.raw(self._gap())
        elif not glue:
            self.raw(self._gap())
        start = self.pos
        for k in self.open:
            if self.spans[k][0] is None:
                self.spans[k][0] = start
        self.raw(s)
        self.tokens.append((start, self.pos, s))
        for k in self.open:
            self.spans[k][1] = self.pos
        return start

    def begin(self, key):
        self.spans[key] = [None, None]
        self.open.append(key)

    def end(self, key):
        self.open.remove(key)

    def text(self, trail=True):
        t = "".join(self.parts)
        if trail and self.layout:
            t += self._gap()
        return t


def linecol(text, pos):
    """1-based line and column of offset pos (independent of Arpeggio's computation)"""
    line = text.count("\n", 0, pos) + 1
    last = text.rfind("\n", 0, pos)
    return line, pos - last
