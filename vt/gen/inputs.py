"""Input derivation from a grammar AST (a distribution device only - the oracle is never the derivation)
and token-level mutation, joined with a generated layout."""
from hypothesis import strategies as st

from vt.gen.grammar import rules_by_name

RE_EXAMPLES = {
    r"[A-Z][a-z]*": ["A", "Foo", "Bar", "Zed"],
    r"[0-9]+": ["0", "12", "007"],
    r"\$[a-z]+": ["$a", "$var"],
    r"<[a-z]+>": ["<a>", "<tag>"],
    r"<([a-z]+)>": ["<b>", "<grp>"],
    r"[a-z]+\b": ["foo", "q", "aa", "end"],
    r"0x([0-9a-f]+)": ["0x1f", "0xa"],
    r"[,;]": [",", ";"],
    r",?": [",", ",", ""],  # separators that may match the empty string ("" = the separator is omitted)
    r";*": [";", "", ";;"],
}
BASE_EXAMPLES = {
    "ID": ["x", "foo", "y1", "_z", "aa", "end", "Foo"],
    "INT": ["0", "7", "42", "-3", "+5", "007"],
    "FLOAT": ["1.5", "0.0", ".5", "3.", "1e3", "2.5e-3", "7", "-0.0"],
    "STRICTFLOAT": ["1.5", ".5", "3.", "1e3", "-2.5"],
    "BOOL": ["true", "false", "0", "1", "True"],
    "STRING": ['"s"', "'t'", '""', '"a b"', "'it\\'s'", '"x\\"y"'],
    "NUMBER": ["5", "-3", "1.5", "1e3", "3."],
    "BASETYPE": ["5", "1.5", "true", "x", '"s"'],
}
STRAY = ["@@", "~", "%", "kw", "9", "zz", ")", "'"]
MAX_DEPTH = 7


@st.composite
def derivations(draw, g):
    rules = rules_by_name(g)

    def tok_for(e):
        if e[0] == "str":
            return [e[1]]
        if e[0] == "re":
            t = draw(st.sampled_from(RE_EXAMPLES[e[1]]))
            return [t] if t else []
        raise ValueError(e)

    def d(e, depth):
        k = e[0]
        if k in ("str", "re"):
            return tok_for(e)
        if k == "ref":
            if e[1] in BASE_EXAMPLES:
                return [draw(st.sampled_from(BASE_EXAMPLES[e[1]]))]
            return d(rules[e[1]]["body"], depth + 1)
        if k == "seq":
            out = []
            for x in e[1]:
                out += d(x, depth)
            return out
        if k == "alt":
            alts = e[1]
            if depth >= MAX_DEPTH:
                # generated recursion never sits in the first alternative
                return d(alts[0], depth + 1)
            return d(draw(st.sampled_from(alts)), depth)
        if k == "opt":
            if depth >= MAX_DEPTH or not draw(st.booleans()):
                return []
            return d(e[1], depth)
        if k in ("star", "plus"):
            lo = 1 if k == "plus" else 0
            n = lo if depth >= MAX_DEPTH else draw(st.integers(lo, 3))
            out = []
            for i in range(n):
                if i and e[2] is not None:
                    out += tok_for(e[2])
                out += d(e[1], depth)
            return out
        if k == "unord":
            members = list(draw(st.permutations(e[1])))
            out = []
            firstm = True
            for m in members:
                if m[0] == "opt" and draw(st.booleans()):
                    continue
                toks = d(m[1] if m[0] == "opt" else m, depth)
                if not toks:
                    continue
                if not firstm and e[2] is not None:
                    out += tok_for(e[2])
                out += toks
                firstm = False
            return out
        if k in ("not", "and"):
            return []
        if k == "sup":
            return d(e[1], depth)
        if k == "asg":
            _, attr, op, rhs, sep, eol = e
            r = ["ref", rhs[2] or "ID"] if rhs[0] == "obj" else rhs
            if op == "=":
                return d(r, depth)
            if op == "?=":
                return d(r, depth) if draw(st.booleans()) else []
            lo = 1 if op == "+=" else 0
            n = lo if depth >= MAX_DEPTH else draw(st.integers(lo, 3))
            out = []
            for i in range(n):
                if i and sep is not None:
                    out += tok_for(sep)
                out += d(r, depth)
            return out
        raise ValueError(e)

    return d(["ref", g["rules"][0]["name"]], 0)


@st.composite
def mutated(draw, tokens):
    toks = list(tokens)
    n = draw(st.integers(1, 2))
    for _ in range(n):
        op = draw(st.integers(0, 5))
        if op == 0 and toks:
            del toks[draw(st.integers(0, len(toks) - 1))]
        elif op == 1 and toks:
            i = draw(st.integers(0, len(toks) - 1))
            toks.insert(i, toks[i])
        elif op == 2 and len(toks) > 1:
            i = draw(st.integers(0, len(toks) - 2))
            toks[i], toks[i + 1] = toks[i + 1], toks[i]
        elif op == 3 and toks:
            i = draw(st.integers(0, len(toks) - 1))
            pool = [t for ex in BASE_EXAMPLES.values() for t in ex]
            toks[i] = draw(st.sampled_from(pool))
        elif op == 4:
            toks.insert(draw(st.integers(0, len(toks))), draw(st.sampled_from(STRAY)))
        elif toks:
            i = draw(st.integers(0, len(toks) - 1))
            toks[i] = toks[i].upper() if toks[i].upper() != toks[i] else toks[i].lower()
    return toks


def _wordy(t):
    return t[-1:].isalnum() or t[-1:] == "_"


@st.composite
def layouts(draw, tokens, cfg, comment, tightness=0):
    """join tokens with gaps.  style: single blanks / mixed pool (incl. comments) / tight (no gap unless two
    word-like tokens would glue) / none; the weights depend on how much of the grammar disables skipping"""
    styles = ["spaces", "spaces", "mixed", "mixed", "mixed", "tight"]
    if not cfg.get("skipws", True) or tightness:
        styles = ["spaces", "mixed", "tight", "tight", "none", "none"]
    style = draw(st.sampled_from(styles))
    pool = [" ", " ", " ", "\n", "\t", "  ", " \n ", "", "\r\n"]
    if comment in ("line", "both"):
        pool += [" # c\n", "#x\n"]
    if comment in ("block", "both"):
        pool += [" /* c */ ", "/*x*/"]
    out = draw(st.sampled_from(["", "", " ", "\n"])) if style == "mixed" else ""
    for i, t in enumerate(tokens):
        if i:
            if style == "spaces":
                out += " "
            elif style == "mixed":
                out += draw(st.sampled_from(pool))
            elif style == "tight":
                out += " " if (_wordy(tokens[i - 1]) and (t[:1].isalnum() or t[:1] == "_")) else ""
        out += t
    if style == "mixed":
        out += draw(st.sampled_from(["", "", " ", "\n", " \n"]))
    return out


@st.composite
def inputs_for(draw, g, cfg, n=6, mutate=True):
    texts = []
    tight = sum(1 for r in g["rules"] if (r.get("mods") or {}).get("skipws") is False or (r.get("mods") or {}).get("ws"))
    for _ in range(n):
        toks = draw(derivations(g))
        if mutate and draw(st.integers(0, 9)) < 4:
            toks = draw(mutated(toks))
        texts.append(draw(layouts(toks, cfg, g.get("comment"), tight)))
    return texts
