"""Grammar AST (JSON-able), printer to textX syntax and Hypothesis generator.

Expr := ["str", lit] | ["re", pat] | ["ref", rule] | ["seq", [e..]] | ["alt", [e..]] | ["opt", e]
      | ["star", e, sep, eol] | ["plus", e, sep, eol] | ["unord", [e..], sep] | ["not", e] | ["and", e]
      | ["sup", e] | ["asg", attr, op, rhs, sep, eol]       op in = += *= ?=
rhs  := ["str", lit] | ["re", pat] | ["ref", rule] | ["obj", cls, matchrule|None]
sep  := None | ["str", lit] | ["re", pat]
Rule := {"name", "mods": {"skipws": True|False|None, "ws": str|None}, "body": Expr}
Grammar := {"rules": [Rule..], "comment": None | "line" | "block"}

The generator only builds grammars inside what grammar.md documents (soundness first) and keeps out,
by construction, the shapes of recorded *engine* findings (see DESIGN.md 3.1): sub-expressions that
can succeed without a parse node as an ordered-choice alternative, as a repetition body or as a
(non-optional) member of an unordered group; left recursion; repetition directly over repetition.
"""
from hypothesis import strategies as st

BASE_TYPES = ["ID", "INT", "STRING", "FLOAT", "BOOL", "NUMBER", "STRICTFLOAT"]
KEYWORDS = ["aa", "bb", "cc", "kw", "end", "begin", "x1", "_k"]
SYMBOLS = ["+", "-", "*", "(", ")", "{", "}", ",", ";", ":", "->", "=", "@"]
REGEXES = [r"[A-Z][a-z]*", r"[0-9]+", r"\$[a-z]+", r"<[a-z]+>", r"<([a-z]+)>", r"[a-z]+\b", r"0x([0-9a-f]+)"]
ATTRS = ["a", "b", "c", "d"]
WS_MODS = [" ", " \\t", "\\n ", " \\t\\n", " \\t\\r\\n", " \\r"]
COMMENT_RULES = {"line": r"/#[^\n]*/", "block": r"/\/\*[^*]*\*\//", "both": r"/#[^\n]*/ | /\/\*[^*]*\*\//"}


# literals that are always *spelled* with an escape sequence in the grammar text (textX decodes it: same literal)
SPELLED = {"end": "'\\x65nd'", "begin": "'b\\u0065gin'"}
# literals that need an escape to be written at all (a quote, a backslash)
ESC_LITS = ["don't", "a\\b", "#def", "2nd", "call("]  # ... and literals that mix letters with a leading symbol / digit


def esc_str(lit):
    if lit in SPELLED:
        return SPELLED[lit]
    return "'" + lit.replace("\\", "\\\\").replace("'", "\\'") + "'"


def p_sep_mods(sep, eol):
    parts = []
    if sep is not None:
        parts.append(p_expr(sep))
    if eol:
        parts.append("eolterm")
    return "[" + " ".join(parts) + "]" if parts else ""


def p_expr(e, top=False):
    k = e[0]
    if k == "str":
        return esc_str(e[1])
    if k == "re":
        return "/" + e[1].replace("/", "\\/") + "/"
    if k == "ref":
        return e[1]
    if k == "seq":
        s = " ".join(p_expr(x) for x in e[1])
        return s if top else "(" + s + ")"
    if k == "alt":
        s = " | ".join(p_expr(x, top=(x[0] == "seq")) for x in e[1])
        return s if top else "(" + s + ")"
    if k == "opt":
        return p_group(e[1]) + "?"
    if k == "star":
        return p_group(e[1]) + "*" + p_sep_mods(e[2], e[3])
    if k == "plus":
        return p_group(e[1]) + "+" + p_sep_mods(e[2], e[3])
    if k == "unord":
        return "(" + " ".join(p_expr(x) for x in e[1]) + ")#" + p_sep_mods(e[2], False)
    if k == "not":
        return "!" + p_group(e[1])
    if k == "and":
        return "&" + p_group(e[1])
    if k == "sup":
        if e[1][0] in ("star", "plus", "opt", "unord"):
            # the suppression operator follows the repetition operator directly: 'x'+-
            return p_expr(e[1]) + "-"
        return p_group(e[1]) + "-"
    if k == "asg":
        _, attr, op, rhs, sep, eol = e
        if rhs[0] == "obj":
            r = "[" + rhs[1] + (":" + rhs[2] if rhs[2] else "") + "]"
        else:
            r = p_expr(rhs)
        return attr + op + r + p_sep_mods(sep, eol)
    raise ValueError(e)


def p_group(e):
    """operand of a postfix/prefix operator: atoms stay bare, everything else is bracketed"""
    if e[0] in ("str", "re", "ref"):
        return p_expr(e)
    if e[0] in ("seq", "alt"):
        return p_expr(e)
    return "(" + p_expr(e) + ")"


def p_rule(r):
    mods = []
    m = r.get("mods") or {}
    if m.get("skipws") is True:
        mods.append("skipws")
    if m.get("skipws") is False:
        mods.append("noskipws")
    if m.get("ws") is not None:
        mods.append("ws='" + m["ws"] + "'")
    head = r["name"] + ("[" + ", ".join(mods) + "]" if mods else "")
    return head + ":\n    " + p_expr(r["body"], top=True) + "\n;"


def to_text(g):
    parts = [p_rule(r) for r in g["rules"]]
    if g.get("comment"):
        parts.append("Comment:\n    " + COMMENT_RULES[g["comment"]] + "\n;")
    return "\n".join(parts) + "\n"


# ---------------------------------------------------------------------------------------------
# static helpers shared with the reference models


def rules_by_name(g):
    return {r["name"]: r for r in g["rules"]}


def walk(e):
    yield e
    k = e[0]
    if k in ("seq", "alt", "unord"):
        for x in e[1]:
            yield from walk(x)
    elif k in ("opt", "star", "plus", "not", "and", "sup"):
        yield from walk(e[1])
        if k in ("star", "plus") and e[2] is not None:
            yield from walk(e[2])
    elif k == "asg":
        if e[3][0] != "obj":
            yield from walk(e[3])
        if e[4] is not None:
            yield from walk(e[4])


def constructs(g):
    ks = set()
    for r in g["rules"]:
        for e in walk(r["body"]):
            ks.add(e[0] if e[0] != "asg" else "asg" + e[2])
            if e[0] in ("star", "plus") and (e[2] is not None or e[3]):
                ks.add("rep_modifier")
            if e[0] == "asg" and (e[4] is not None or e[5]):
                ks.add("rep_modifier")
        if (r.get("mods") or {}).get("skipws") is not None or (r.get("mods") or {}).get("ws") is not None:
            ks.add("rule_modifier")
    return ks


# ---------------------------------------------------------------------------------------------
# generator


@st.composite
def literals(draw):
    return ["str", draw(st.sampled_from(KEYWORDS + SYMBOLS + KEYWORDS + ESC_LITS))]


@st.composite
def seps(draw):
    return draw(st.one_of(st.none(), st.none(), st.sampled_from([["str", ","], ["str", ";"], ["str", "kw"], ["re", r"[,;]"], ["str", ","], ["re", r",?"], ["re", r";*"]])))


class _Ctx:
    def __init__(self, names, kinds, idx, allow_eol, allow_objref):
        self.names, self.kinds, self.idx = names, kinds, idx
        self.allow_eol = allow_eol
        self.allow_objref = allow_objref
        self.used_bool = set()
        self.assigned = set()

    def later(self, kinds=None):
        return [n for i, n in enumerate(self.names) if i > self.idx and (kinds is None or self.kinds[i] in kinds)]

    def any_rules(self, kinds):
        return [n for i, n in enumerate(self.names) if self.kinds[i] in kinds]


@st.composite
def match_atom(draw, ctx):
    """an expression of a match rule / a simple token: never node-less"""
    opts = [literals(), st.sampled_from(REGEXES).map(lambda p: ["re", p]),
            st.sampled_from(BASE_TYPES).map(lambda t: ["ref", t])]
    later_match = ctx.later({"match"})
    if later_match:
        opts.append(st.sampled_from(later_match).map(lambda n: ["ref", n]))
    return draw(st.one_of(*opts))


@st.composite
def rhs_exprs(draw, ctx):
    opts = [st.sampled_from(BASE_TYPES).map(lambda t: ["ref", t]), st.sampled_from(BASE_TYPES[:3]).map(lambda t: ["ref", t]),
            literals(), st.sampled_from(REGEXES).map(lambda p: ["re", p])]
    tgt = ctx.later()
    if tgt:
        opts += [st.sampled_from(tgt).map(lambda n: ["ref", n])] * 3
    # guarded recursion: a reference back to an earlier (or the same) rule; callers put it behind a literal
    return draw(st.one_of(*opts))


@st.composite
def assignments(draw, ctx, in_rep=False):
    attr = draw(st.sampled_from(ATTRS))
    ops = ["=", "=", "=", "+=", "*="]
    if not in_rep and attr not in ctx.assigned:
        ops.append("?=")
    op = draw(st.sampled_from(ops))
    if attr in ctx.used_bool:
        attr = draw(st.sampled_from([a for a in ATTRS if a not in ctx.used_bool] or ["e"]))  # "e": never boolean
        if op == "?=":
            op = "="
    if op == "?=":
        ctx.used_bool.add(attr)
        rhs = draw(st.one_of(literals(), match_atom(ctx)))
    else:
        rhs = draw(rhs_exprs(ctx))
    ctx.assigned.add(attr)
    sep, eol = None, False
    if op in ("+=", "*="):
        sep = draw(seps())
        eol = ctx.allow_eol and draw(st.integers(0, 5)) == 0
    return ["asg", attr, op, rhs, sep, eol]


def nodeless(e):
    """can the expression succeed without producing a parse node? (conservative: True when unsure)"""
    k = e[0]
    if k in ("str", "re"):
        return False
    if k == "ref":
        return False  # referenced rules are generated non-nodeless (bodies start with / contain a mandatory token)
    if k == "seq":
        return all(nodeless(x) for x in e[1])
    if k == "alt":
        return any(nodeless(x) for x in e[1])
    if k in ("opt", "star", "not", "and", "sup"):
        return True
    if k == "plus":
        return nodeless(e[1])
    if k == "unord":
        return all(nodeless(x) for x in e[1])
    if k == "asg":
        return e[2] in ("*=", "?=")
    return True


@st.composite
def items(draw, ctx, depth, in_rep=False):
    """one element of a sequence in a common rule"""
    choice = draw(st.integers(0, 19))
    if choice <= 4:
        return draw(literals())
    if choice <= 10 or depth <= 0:
        return draw(assignments(ctx, in_rep))
    if choice == 11:
        return ["opt", draw(groups(ctx, depth - 1, in_rep))]
    if choice == 12 and not in_rep:
        body = draw(groups(ctx, depth - 1, True, need_node=True))
        sep = draw(seps())
        eol = ctx.allow_eol and draw(st.integers(0, 4)) == 0
        return [draw(st.sampled_from(["star", "plus"])), body, sep, eol]
    if choice == 13:
        alts = [draw(groups(ctx, depth - 1, in_rep, need_node=True)) for _ in range(draw(st.integers(2, 3)))]
        return ["alt", alts]
    if choice == 14 and not in_rep:
        n = draw(st.integers(2, 3))
        members = []
        for _ in range(n):
            m = draw(groups(ctx, 0, in_rep, need_node=True))
            if draw(st.integers(0, 3)) == 0:
                m = ["opt", m]
            members.append(m)
        return ["unord", members, draw(st.one_of(st.none(), st.none(), st.just(["str", ","])))]
    if choice == 15:
        return [draw(st.sampled_from(["not", "and"])), draw(match_atom(ctx))]
    if choice == 16:
        inner = draw(st.one_of(literals(), match_atom(ctx)))
        shape = draw(st.integers(0, 9))
        if shape == 0 and not in_rep:
            inner = [draw(st.sampled_from(["star", "plus"])), inner, draw(seps()), False]
        elif shape == 1:
            inner = ["opt", inner]
        elif shape == 2 and not in_rep:
            inner = ["unord", [inner, draw(literals())], None]
        return ["sup", inner]
    if choice == 17:
        m = ctx.later({"match"})
        if m:
            return ["ref", draw(st.sampled_from(m))]
        return draw(literals())
    return draw(assignments(ctx, in_rep))


@st.composite
def groups(draw, ctx, depth, in_rep=False, need_node=False):
    n = draw(st.integers(1, 3))
    xs = [draw(items(ctx, depth, in_rep)) for _ in range(n)]
    if need_node and all(nodeless(x) for x in xs):
        xs.insert(draw(st.integers(0, len(xs))), draw(literals()))
    return xs[0] if len(xs) == 1 and xs[0][0] not in ("alt",) else ["seq", xs]


@st.composite
def common_bodies(draw, ctx):
    n = draw(st.integers(1, 4))
    xs = [draw(items(ctx, 2)) for _ in range(n)]
    # keep the rule graph connected: usually contain the next rule (and sometimes one more later rule)
    later = ctx.later()
    if later and draw(st.integers(0, 9)) < 8:
        targets = [later[0]] + ([draw(st.sampled_from(later))] if draw(st.integers(0, 2)) == 0 else [])
        for tname in targets:
            attr = draw(st.sampled_from([a for a in ATTRS if a not in ctx.used_bool] or ["e"]))  # "e": never boolean
            op = draw(st.sampled_from(["=", "=", "+=", "*="]))
            asg = ["asg", attr, op, ["ref", tname], draw(seps()) if op != "=" else None, False]
            ctx.assigned.add(attr)
            if draw(st.integers(0, 3)) == 0:
                asg = ["opt", ["seq", [draw(literals()), asg]]]
            xs.insert(draw(st.integers(0, len(xs))), asg)
    # guarded recursion (containment of an earlier rule or of itself) behind a mandatory literal
    if ctx.idx > 0 and draw(st.integers(0, 4)) == 0:
        back = draw(st.sampled_from(ctx.names[: ctx.idx + 1]))
        attr = draw(st.sampled_from(ATTRS))
        if attr not in ctx.used_bool:
            op = draw(st.sampled_from(["=", "+="]))
            rec = ["opt", ["seq", [["str", draw(st.sampled_from(["(", "{", "begin"]))], ["asg", attr, op, ["ref", back], None, False],
                                   ["str", draw(st.sampled_from([")", "}", "end"]))]]]]
            xs.append(rec)
    if not any(e[0] == "asg" for x in xs for e in walk(x)):
        xs.append(draw(assignments(ctx)))
    # a rule must not be node-less as a whole: put a mandatory literal in front if needed
    if all(nodeless(x) for x in xs):
        xs.insert(0, draw(literals()))
    body = xs[0] if len(xs) == 1 else ["seq", xs]
    if draw(st.integers(0, 9)) == 0 and len(xs) > 1:
        # top-level choice between two sequences
        k = draw(st.integers(1, len(xs) - 1))
        left, right = xs[:k], xs[k:]
        if not all(nodeless(x) for x in left) and not all(nodeless(x) for x in right):
            body = ["alt", [["seq", left] if len(left) > 1 else left[0], ["seq", right] if len(right) > 1 else right[0]]]
    return body


@st.composite
def abstract_bodies(draw, ctx):
    nonmatch = ctx.later({"common", "abstract"})
    match = ctx.later({"match"})
    alts = []
    n = draw(st.integers(1, 3))
    for i in range(n):
        kind = draw(st.integers(0, 7))
        if kind == 6 and nonmatch and i > 0:
            # an optional / repeated non-match reference in front of another one: Tag? Leaf
            first = ["ref", draw(st.sampled_from(nonmatch))]
            first = ["opt", first] if draw(st.booleans()) else ["star", first, None, False]
            alts.append(["seq", [first, ["ref", draw(st.sampled_from(nonmatch))]]])
            continue
        if kind == 7 and i > 0:
            # terminals only, base types included (their text, not their converted value, is concatenated)
            xs = [["ref", draw(st.sampled_from(BASE_TYPES))], draw(literals())]
            if draw(st.booleans()):
                xs.append(["ref", draw(st.sampled_from(BASE_TYPES))])
            alts.append(["seq", xs])
            continue
        if kind >= 6:
            kind = draw(st.integers(0, 5))
        if kind <= 2 or not match:
            alts.append(["ref", draw(st.sampled_from(nonmatch if (nonmatch and (i == 0 or kind <= 1)) else (match or nonmatch)))])
        elif kind == 3 and nonmatch:
            # complex mix: 'kw' Match Common suffix  (match NonTerminal before the common reference)
            xs = [draw(literals()), ["ref", draw(st.sampled_from(match))], ["ref", draw(st.sampled_from(nonmatch))]]
            if draw(st.booleans()):
                xs.append(draw(literals()))
            alts.append(["seq", xs])
        elif kind == 4 and nonmatch:
            # nested choice inside a sequence: ('kw' | Common) Common
            alts.append(["seq", [["alt", [draw(literals()), ["ref", draw(st.sampled_from(nonmatch))]]],
                                 ["ref", draw(st.sampled_from(nonmatch))]]])
        elif kind == 5 and i > 0 and ctx.idx > 0 and draw(st.booleans()):
            # cycle of abstract rules: a guarded reference back to an earlier rule or to this rule
            back = draw(st.sampled_from(ctx.names[1: ctx.idx + 1]))
            alts.append(["seq", [["str", draw(st.sampled_from(["(", "{", "begin"]))], ["ref", back],
                                 ["str", draw(st.sampled_from([")", "}", "end"]))]]])
        else:
            alts.append(["seq", [["ref", draw(st.sampled_from(match))], draw(literals())]])
    if nonmatch and not any(e[0] == "ref" and e[1] in nonmatch for a in alts for e in walk(a)):
        alts[0] = ["ref", draw(st.sampled_from(nonmatch))]
    return alts[0] if len(alts) == 1 else ["alt", alts]


@st.composite
def match_bodies(draw, ctx):
    n = draw(st.integers(1, 3))
    xs = [draw(match_atom(ctx)) for _ in range(n)]
    if draw(st.integers(0, 5)) == 0:
        # the whole body is a repetition / an unordered group (rule modifiers then sit on such a body)
        if n >= 2 and draw(st.booleans()):
            return ["unord", xs[:2], None]
        return ["plus", xs[0], draw(seps()), False]
    if draw(st.integers(0, 3)) == 0:
        ys = [draw(match_atom(ctx)) for _ in range(draw(st.integers(1, 2)))]
        return ["alt", [xs[0] if len(xs) == 1 else ["seq", xs], ys[0] if len(ys) == 1 else ["seq", ys]]]
    if len(xs) > 1 and draw(st.integers(0, 4)) == 0:
        i = draw(st.integers(0, len(xs) - 1))
        if any(j != i for j in range(len(xs))):
            xs[i] = ["sup", xs[i]]
    return xs[0] if len(xs) == 1 else ["seq", xs]


@st.composite
def grammars(draw, max_rules=6, modifiers=True, comments=True, eolterm=True, allow_known=False, kind_pool=None,
             min_rules=1):
    n = draw(st.integers(min_rules, max_rules))
    names = [f"R{i}" for i in range(n)]
    kinds = ["common"]
    for i in range(1, n):
        kinds.append(draw(st.sampled_from(kind_pool or ["common", "common", "abstract", "match", "match"])))
    # an abstract rule needs a later non-match rule; otherwise it becomes common
    for i in range(n):
        if kinds[i] == "abstract" and not any(kinds[j] in ("common",) for j in range(i + 1, n)):
            kinds[i] = "common"
    use_eol = eolterm and draw(st.integers(0, 2)) == 0
    rules = []
    for i in range(n):
        ctx = _Ctx(names, kinds, i, use_eol, False)
        if kinds[i] == "common":
            body = draw(common_bodies(ctx))
        elif kinds[i] == "abstract":
            body = draw(abstract_bodies(ctx))
        else:
            body = draw(match_bodies(ctx))
        mods = {}
        if modifiers and draw(st.integers(0, 4)) == 0:
            m = draw(st.integers(0, 3))
            if m == 0:
                mods["skipws"] = False
            elif m == 1:
                mods["skipws"] = True
            elif not use_eol:
                mods["ws"] = draw(st.sampled_from(WS_MODS))
            else:
                mods["skipws"] = False
        rules.append({"name": names[i], "mods": mods, "body": body})
    comment = draw(st.sampled_from([None, None, "line", "block", "both"])) if comments else None
    if use_eol and comment is not None and not allow_known:
        # engine finding F-C01d (comment-position cache filled under eolterm): kept out by construction
        comment = None
    return {"rules": rules, "comment": comment}


@st.composite
def configs(draw):
    return {
        "skipws": draw(st.sampled_from([True, True, True, False])),
        "ws": draw(st.sampled_from([None, None, None, " ", " \n", " \t\n"])),
        "auto_init_attributes": draw(st.booleans()),
        "use_regexp_group": draw(st.sampled_from([False, False, True])),
    }


# ---------------------------------------------------------------------------------------------
# C02: grammars that assign the same attribute several times in nestings of sequence, ordered choice,
# optional, repetition and unordered group (values include falsy ones: 0, "", false)

ASG_RHS = [["ref", "INT"], ["ref", "INT"], ["ref", "ID"], ["ref", "STRING"], ["ref", "BOOL"], ["str", "x1"]]
ASG_KW = ["aa", "bb", "cc", "kw", ",", ";", ":", "(", ")"]


@st.composite
def asg_nest(draw, depth, attrs, in_rep=False, sub=None):
    c = draw(st.integers(0, 11 if depth > 0 else 4))
    if c <= 4:
        attr = draw(st.sampled_from(attrs))
        op = draw(st.sampled_from(["=", "=", "=", "=", "+=", "*="]))
        rhs = draw(st.sampled_from(ASG_RHS if sub is None else ASG_RHS + [["ref", sub]] * 3))
        a = ["asg", attr, op, rhs, draw(seps()) if op != "=" else None, False]
        # a keyword in front keeps alternatives and iterations apart
        if draw(st.booleans()):
            return ["seq", [["str", draw(st.sampled_from(ASG_KW))], a]]
        return a
    if c <= 6:
        n = draw(st.integers(2, 3))
        return ["seq", [draw(asg_nest(depth - 1, attrs, in_rep, sub)) for _ in range(n)]]
    if c <= 8:
        n = draw(st.integers(2, 3))
        alts = []
        for _ in range(n):
            x = draw(asg_nest(depth - 1, attrs, in_rep, sub))
            if nodeless(x):
                x = ["seq", [["str", draw(st.sampled_from(ASG_KW))], x]]
            alts.append(x)
        return ["alt", alts]
    if c == 9:
        return ["opt", draw(asg_nest(depth - 1, attrs, in_rep, sub))]
    if c == 10 and not in_rep:
        x = draw(asg_nest(depth - 1, attrs, True, sub))
        if nodeless(x):
            x = ["seq", [["str", draw(st.sampled_from(ASG_KW))], x]]
        return [draw(st.sampled_from(["star", "plus"])), x, draw(seps()), False]
    if c == 11 and not in_rep:
        ms = []
        for _ in range(draw(st.integers(2, 3))):
            x = draw(asg_nest(0, attrs, True, sub))
            if nodeless(x):
                x = ["seq", [["str", draw(st.sampled_from(ASG_KW))], x]]
            ms.append(x)
        return ["unord", ms, None]
    attr = draw(st.sampled_from(attrs))
    return ["asg", attr, "=", draw(st.sampled_from(ASG_RHS)), None, False]


@st.composite
def assign_grammars(draw):
    attrs = draw(st.sampled_from([["a"], ["a", "b"], ["a", "b"]]))
    two = draw(st.booleans())
    body = draw(asg_nest(3, attrs, False, "R1" if two else None))
    if body[0] != "seq":
        body = ["seq", [body]]
    if nodeless(body):
        body = ["seq", [["str", "begin"]] + body[1]]
    rules = [{"name": "R0", "mods": {}, "body": body}]
    if two:
        b1 = draw(asg_nest(2, attrs, False, None))
        if nodeless(b1):
            b1 = ["seq", [["str", "@"], b1]]
        rules.append({"name": "R1", "mods": {}, "body": b1})
    return {"rules": rules, "comment": None}
