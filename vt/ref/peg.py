"""Reference interpreter: PEG + whitespace/comment skipping + object construction, written from the
textX documentation (grammar.md, metamodel.md, parser_config.md) over the grammar AST of vt.gen.grammar.
No Arpeggio, no textX code.  Deliberately a plain recursive, non-memoising interpreter.

parse(g, cfg, text) -> ("ok", model, trace) | ("syntax", furthest_position) | ("budget",)
model: Obj (common rule result) | primitive | None (root produced no node: only acceptance is compared)
"""
import re

BASE_RE = {
    "ID": r"[^\d\W]\w*\b",
    "BOOL": r"(True|true|False|false|0|1)\b",
    "INT": r"[-+]?[0-9]+",
    "FLOAT": r"[+-]?(\d+(\.\d*)?|\.\d+)([eE][+-]?\d+)?(?<=[\w\.])(?![\w\.])",
    "STRICTFLOAT": r"[+-]?(((\d+\.(\d*)?|\.\d+)([eE][+-]?\d+)?)|((\d+)([eE][+-]?\d+)))(?<=[\w\.])(?![\w\.])",
    "STRING": r'("(\\"|[^"])*")|(\'(\\\'|[^\'])*\')',
}
BASE_CHOICE = {"NUMBER": ["STRICTFLOAT", "INT"], "BASETYPE": ["NUMBER", "FLOAT", "BOOL", "ID", "STRING"]}
BASE_NAMES = list(BASE_RE) + list(BASE_CHOICE)
PY_DEFAULT = {"ID": "", "BOOL": False, "INT": 0, "FLOAT": 0.0, "STRICTFLOAT": 0.0, "STRING": "", "NUMBER": 0.0, "BASETYPE": ""}
COMMENT_RE = {"line": r"#[^\n]*", "block": r"/\*[^*]*\*/", "both": r"#[^\n]*|/\*[^*]*\*/"}
DEFAULT_WS = "\t\n\r "
STEP_BUDGET = 200000


def convert(base, text):
    if base == "INT":
        return int(text)
    if base in ("FLOAT", "STRICTFLOAT"):
        return float(text)
    if base == "BOOL":
        return text == "1" or text.lower() == "true"
    if base == "STRING":
        q = text[0]
        return text[1:-1].replace("\\" + q, q)
    return text


def decode_ws(v):
    """the documented escapes of the ws rule modifier"""
    if "\\" not in v:
        return v
    out = ""
    if "\\n" in v:
        out += "\n"
    if "\\r" in v:
        out += "\r"
    if "\\t" in v:
        out += "\t"
    if " " in v:
        out += " "
    return out


class Obj:
    __slots__ = ("cls", "attrs", "parent", "start", "end")

    def __init__(self, cls):
        self.cls, self.attrs, self.parent, self.start, self.end = cls, {}, None, None, None


class T:
    """terminal node"""
    __slots__ = ("text", "start", "end", "base", "m", "is_str", "sep", "gap", "mode", "lit")

    def __init__(self, text, start, end, base=None, m=None, is_str=False, gap=None, mode=None, lit=None):
        self.text, self.start, self.end, self.base, self.m, self.is_str = text, start, end, base, m, is_str
        self.sep = False  # matched by the separator modifier of a repetition
        self.gap = gap  # where whitespace/comment skipping in front of this terminal started
        self.mode = mode  # (skipws, ws, eolterm) in force
        self.lit = lit  # the grammar's string literal, for string matches


class N:
    """rule node: children are T / N / A in order"""
    __slots__ = ("rule", "kids", "start", "end", "alt_index")

    def __init__(self, rule, kids):
        self.rule, self.kids = rule, kids
        self.start, self.end = kids[0].start, kids[-1].end


class A:
    """assignment node"""
    __slots__ = ("attr", "op", "kids", "start", "end", "rhs")

    def __init__(self, attr, op, kids, rhs):
        self.attr, self.op, self.kids, self.rhs = attr, op, kids, rhs
        self.start, self.end = kids[0].start, kids[-1].end


class Fail(Exception):
    pass


class Budget(Exception):
    pass


# ------------------------------------------------------------------------------------------
# static analysis: rule kinds, attribute types and multiplicities


def kinds(g):
    """least fixpoint: non-match = has an assignment in its own body or references a non-match rule"""
    from vt.gen.grammar import walk

    rules = {r["name"]: r for r in g["rules"]}
    has_asg = {n: any(e[0] == "asg" for e in walk(r["body"])) for n, r in rules.items()}
    nonmatch = {n for n, v in has_asg.items() if v}
    changed = True
    while changed:
        changed = False
        for n, r in rules.items():
            if n in nonmatch:
                continue
            for e in walk(r["body"]):
                if e[0] == "ref" and e[1] in nonmatch:
                    nonmatch.add(n)
                    changed = True
                    break
    out = {}
    for n in rules:
        out[n] = "common" if has_asg[n] else ("abstract" if n in nonmatch else "match")
    return out


def attr_info(g):
    """rule -> attr -> {"type": declared type name, "bool": ?= used}"""
    from vt.gen.grammar import walk

    info = {}
    for r in g["rules"]:
        d = {}
        for e in walk(r["body"]):
            if e[0] != "asg":
                continue
            _, attr, op, rhs, sep, eol = e
            if op == "?=":
                t = "BOOL"
            elif rhs[0] in ("str", "re"):
                t = "STRING"
            elif rhs[0] == "obj":
                t = rhs[1]
            else:
                t = rhs[1]
            if attr not in d:
                d[attr] = {"type": t, "bool": op == "?=", "ops": [op]}
            else:
                if d[attr]["type"] != t:
                    d[attr]["type"] = "OBJECT"
                d[attr]["ops"].append(op)
        info[r["name"]] = d
    return info


def mult_static(g):
    """rule -> attr -> abstract maximal count in {0, 1, 2(=many)} following grammar.md's rule of thumb"""
    res = {}

    def count(e, many):
        """returns dict attr -> count (1 or 2)"""
        k = e[0]
        if k == "asg":
            c = 2 if (many or e[2] in ("+=", "*=")) else 1
            return {e[1]: c}
        if k == "seq" or k == "unord":
            tot = {}
            for x in e[1]:
                for a, c in count(x, many).items():
                    tot[a] = min(2, tot.get(a, 0) + c)
            return tot
        if k == "alt":
            tot = {}
            for x in e[1]:
                for a, c in count(x, many).items():
                    tot[a] = max(tot.get(a, 0), c)
            return tot
        if k in ("opt", "sup"):
            return count(e[1], many)
        if k in ("star", "plus"):
            return count(e[1], True)
        return {}

    for r in g["rules"]:
        res[r["name"]] = count(r["body"], False)
    return res


# ------------------------------------------------------------------------------------------
# the interpreter


class Interp:
    def __init__(self, g, cfg, text, quirks=()):
        self.g, self.cfg, self.s = g, cfg, text
        self.rules = {r["name"]: r for r in g["rules"]}
        self.kinds = kinds(g)
        self.ainfo = attr_info(g)
        self.comment = re.compile(COMMENT_RE[g["comment"]], re.MULTILINE) if g.get("comment") else None
        self.ignore_case = bool(cfg.get("ignore_case"))
        self.autokwd = bool(cfg.get("autokwd"))
        self.flags = re.MULTILINE | (re.IGNORECASE if self.ignore_case else 0)
        self.re_cache = {}
        self.steps = 0
        self.furthest = 0
        self.quirks = set(quirks)
        self.trace = []  # terminals of the successful parse are collected from the tree afterwards
        self.rule_calls = {}  # (rule, position) -> number of attempts (backtracking indicator)
        ws = cfg.get("ws")
        self.mode0 = (cfg.get("skipws", True), DEFAULT_WS if ws is None else ws, False)

    def rx_plain(self, pat):
        r = self.re_cache.get(("plain", pat))
        if r is None:
            r = self.re_cache[("plain", pat)] = re.compile(pat, re.MULTILINE)
        return r

    def rx(self, pat):
        r = self.re_cache.get(pat)
        if r is None:
            r = self.re_cache[pat] = re.compile(pat, self.flags)
        return r

    # -- whitespace and comments -------------------------------------------------------------
    def skip(self, p, mode):
        skipws, ws, eol = mode
        if not skipws:
            return p
        if eol:
            ws = ws.replace("\n", "").replace("\r", "")
        s = self.s
        n = len(s)
        while p < n and s[p] in ws:
            p += 1
        return p

    def pre_terminal(self, p, mode):
        p = self.skip(p, mode)
        if self.comment is not None:
            while True:
                # the comment rule is a terminal itself: whitespace is skipped in front of it as well
                q = self.skip(p, mode)
                m = self.comment.match(self.s, q)
                if not m or m.end() == q:
                    break
                p = self.skip(m.end(), mode)
        return p

    # -- terminals ---------------------------------------------------------------------------
    def fail(self, p):
        if p > self.furthest:
            self.furthest = p
        raise Fail()

    def t_str(self, lit, p, mode):
        p0 = p
        p = self.pre_terminal(p, mode)
        s = self.s
        frag = s[p:p + len(lit)]
        ok = (frag.lower() == lit.lower()) if self.ignore_case else (frag == lit)
        kwd = self.autokwd and re.fullmatch(r"[^\d\W]\w*", lit) is not None
        if ok and kwd:
            # keyword-like literal under autokwd: it must end on a word boundary; the value is the text
            # as written in the input (a regular-expression match)
            m = self.rx(lit + r"\b").match(s, p)
            if not m:
                ok = False
            else:
                return p + len(m.group()), [T(m.group(), p, p + len(m.group()), is_str=True, gap=p0, mode=mode, lit=lit)]
        if not ok:
            self.fail(p)
        # a string match yields the literal as spelled in the grammar
        return p + len(lit), [T(lit, p, p + len(lit), is_str=True, gap=p0, mode=mode, lit=lit)]

    def t_re(self, pat, p, mode, base=None):
        p0 = p
        p = self.pre_terminal(p, mode)
        # the built-in base types are not affected by ignore_case (only literals of the grammar are)
        m = (self.rx_plain(pat) if base is not None else self.rx(pat)).match(self.s, p)
        if not m:
            self.fail(p)
        if m.end() == p:
            return p, []
        return m.end(), [T(m.group(), p, m.end(), base=base, m=m, gap=p0, mode=mode)]

    # -- expressions -------------------------------------------------------------------------
    def ev(self, e, p, mode):
        self.steps += 1
        if self.steps > STEP_BUDGET:
            raise Budget()
        k = e[0]
        if k == "str":
            return self.t_str(e[1], p, mode)
        if k == "re":
            return self.t_re(e[1], p, mode)
        if k == "ref":
            return self.ref(e[1], p, mode)
        if k == "seq":
            nodes = []
            for x in e[1]:
                p, ns = self.ev(x, p, mode)
                nodes += ns
            return p, nodes
        if k == "alt":
            for x in e[1]:
                try:
                    return self.ev(x, p, mode)
                except Fail:
                    pass
            self.fail(p)
        if k == "opt":
            try:
                return self.ev(e[1], p, mode)
            except Fail:
                return p, []
        if k in ("star", "plus"):
            return self.rep(e[1], e[2], e[3], p, mode, k == "plus")
        if k == "unord":
            return self.unord(e[1], e[2], p, mode)
        if k == "not":
            try:
                self.ev(e[1], p, mode)
            except Fail:
                return p, []
            self.fail(p)
        if k == "and":
            self.ev(e[1], p, mode)
            return p, []
        if k == "sup":
            p, _ = self.ev(e[1], p, mode)
            return p, []
        if k == "asg":
            return self.asg(e, p, mode)
        raise ValueError(e)

    def rep(self, body, sep, eol, p, mode, plus, as_sep_nodes=False):
        if eol:
            mode = (mode[0], mode[1], True)
        nodes = []
        first = True
        while True:
            save = p
            try:
                q = p
                sep_nodes = []
                if not first and sep is not None:
                    q, sep_nodes = self.ev(sep, q, mode)
                q, ns = self.ev(body, q, mode)
            except Fail:
                if first and plus:
                    raise
                if sep_nodes and "trailing_sep_node" in self.quirks:
                    # recorded engine finding F-C01e: the separator that is given back (the element after it
                    # failed) stays in the parse tree although its text is not consumed by the repetition
                    for sn in sep_nodes:
                        sn.sep = True
                    nodes += sep_nodes
                p = save
                break
            if q == save:
                break
            for sn in sep_nodes:
                sn.sep = True
            # separators are part of the matched text (match rules concatenate them); list assignments skip them
            nodes += sep_nodes
            nodes += ns
            p = q
            first = False
        return p, nodes

    def unord(self, members, sep, p, mode):
        left = list(members)
        nodes = []
        first = True
        while left:
            save = p
            q = p
            if sep is not None and not first:
                try:
                    q, _ = self.ev(sep, q, mode)
                except Fail:
                    # no separator: the group ends here.  A further member that could match at this
                    # point without its separator makes the group fail (a separator is mandatory
                    # between members), it is not left to whatever follows the group.
                    for m in left:
                        try:
                            q2, ns = self.ev(m, p, mode)
                        except Fail:
                            continue
                        if ns and q2 != p:
                            self.fail(p)
                    break
            taken = None
            for m in left:
                try:
                    q2, ns = self.ev(m, q, mode)
                except Fail:
                    continue
                if q2 == q:
                    continue  # an optional member that did not match
                taken = (m, q2, ns)
                break
            if taken is None:
                p = save
                break
            left.remove(taken[0])
            p = taken[1]
            nodes += taken[2]
            first = False
        for m in left:
            if m[0] != "opt":
                # a mandatory member is missing: it must fail here (position for the error)
                self.ev(m, p, mode)
                self.fail(p)
        return p, nodes

    def ref(self, name, p, mode):
        if name in BASE_RE:
            return self.t_re(BASE_RE[name], p, mode, base=name)
        if name in BASE_CHOICE:
            for alt in BASE_CHOICE[name]:
                try:
                    q, ns = self.ref(alt, p, mode)
                    return q, [N(name, ns)] if ns else []
                except Fail:
                    pass
            self.fail(p)
        r = self.rules[name]
        key = (name, p)
        self.rule_calls[key] = self.rule_calls.get(key, 0) + 1
        m = r.get("mods") or {}
        if m.get("skipws") is not None:
            mode = (m["skipws"], mode[1], mode[2])
        if m.get("ws") is not None:
            mode = (mode[0], decode_ws(m["ws"]), mode[2])
        q, ns = self.ev(r["body"], p, mode)
        if not ns:
            return q, []
        if r["body"][0] in ("str", "re", "ref") and not (m.get("skipws") is not None or m.get("ws") is not None):
            # a rule whose whole body is one match is that match (its terminal is the rule's result: the
            # regexp-group replacement applies to it); a rule whose whole body is one rule reference is an
            # alias of that rule
            return q, ns
        return q, [N(name, ns)]

    def asg(self, e, p, mode):
        _, attr, op, rhs, sep, eol = e
        if rhs[0] == "obj":
            rhs_e = ["ref", rhs[2] or "ID"]
        else:
            rhs_e = rhs
        if op == "=":
            q, ns = self.ev(rhs_e, p, mode)
            return q, [A(attr, op, ns, rhs)] if ns else []
        if op == "?=":
            try:
                q, ns = self.ev(rhs_e, p, mode)
            except Fail:
                return p, []
            return q, [A(attr, op, ns, rhs)] if ns else []
        q, ns = self.rep(rhs_e, sep, eol, p, mode, op == "+=")
        return q, [A(attr, op, ns, rhs)] if ns else []

    # -- values and objects ------------------------------------------------------------------
    def term_value(self, t, whole_rhs=False):
        if t.base is not None:
            return convert(t.base, t.text)
        if whole_rhs and self.cfg.get("use_regexp_group") and t.m is not None and t.m.re.groups == 1:
            return t.m.group(1)
        return t.text

    def match_value(self, node):
        """value of a match-rule node (N) or terminal"""
        if isinstance(node, T):
            return self.term_value(node, whole_rhs=True)
        return self.match_inner(node)

    def match_inner(self, node):
        """inside a match rule that produced several parse nodes (or a choice): terminals are converted by
        their base type only; the documented regexp-group replacement applies to a whole RHS / rule body"""
        if isinstance(node, T):
            return self.term_value(node, whole_rhs=False)
        kids = node.kids
        if len(kids) == 1:
            return self.match_inner(kids[0])
        return "".join(str(self.match_inner(k)) for k in kids)

    def value(self, node, parent_obj):
        if isinstance(node, T):
            return self.term_value(node, whole_rhs=True)
        if node.rule in BASE_CHOICE:
            return self.match_value(node)
        kind = self.kinds[node.rule]
        if kind == "match":
            return self.match_value(node)
        if kind == "abstract":
            if len(node.kids) == 1:
                return self.value(node.kids[0], parent_obj)
            for k in node.kids:
                if isinstance(k, N) and k.rule not in BASE_CHOICE and self.kinds.get(k.rule) != "match":
                    return self.value(k, parent_obj)
            if "abstract_first_nt" in self.quirks:
                # recorded finding F-C03b: with match rules only, the first one that produced a
                # non-terminal wins instead of the concatenation (behaviour pinned by test_issue166)
                for k in node.kids:
                    if isinstance(k, N):
                        return self.value(k, parent_obj)
            return "".join(self.flat(k) for k in node.kids)
        return self.build(node, parent_obj)

    def flat(self, node):
        if isinstance(node, T):
            return node.text
        return "".join(self.flat(k) for k in node.kids)

    def build(self, node, parent_obj):
        o = Obj(node.rule)
        o.parent = parent_obj
        o.start, o.end = node.start, node.end
        info = self.ainfo[node.rule]
        static = self.mult[node.rule]
        auto = self.cfg.get("auto_init_attributes", True)
        for a, d in info.items():
            if self.is_list(node.rule, a):
                o.attrs[a] = []
            elif d["type"] in PY_DEFAULT:
                o.attrs[a] = PY_DEFAULT[d["type"]] if auto else (False if d["bool"] else None)
            else:
                o.attrs[a] = None
        self.collected.setdefault(id(o), {})
        for k in self.asg_nodes(node):
            vals = []
            if k.op == "?=":
                vals = [True]
            else:
                for x in k.kids:
                    if isinstance(x, T) and x.sep:
                        continue
                    if k.rhs[0] == "obj":
                        vals.append(("ref", k.rhs[1], self.match_value(x) if not isinstance(x, T) else self.term_value(x, True), x.start))
                    else:
                        vals.append(self.value(x, o))
            rec = self.collected[id(o)].setdefault(k.attr, [])
            rec += vals
            for v in vals:
                if isinstance(o.attrs[k.attr], list):
                    o.attrs[k.attr].append(v)
                else:
                    o.attrs[k.attr] = v
        self.objs.append(o)
        return o

    def asg_nodes(self, node):
        """assignment nodes of this rule invocation, in order (sub-rule nodes belong to their own objects)"""
        for k in node.kids:
            if isinstance(k, A):
                yield k

    def is_list(self, rule, attr):
        return self.mult[rule].get(attr, 0) >= 2

    def run(self):
        self.mult = mult_static(self.g)
        self.collected = {}
        self.objs = []
        root = self.g["rules"][0]["name"]
        try:
            p, ns = self.ref(root, 0, self.mode0)
            # EOF is a terminal as well: whitespace and comments are skipped in front of it
            p = self.pre_terminal(p, self.mode0)
            if p != len(self.s):
                self.fail(p)
        except Fail:
            return ("syntax", self.furthest)
        except Budget:
            return ("budget",)
        except RecursionError:
            return ("budget",)
        if not ns:
            return ("ok", None, ns)
        return ("ok", self.value(ns[0], None), ns)


def parse(g, cfg, text, quirks=()):
    it = Interp(g, cfg, text, quirks)
    res = it.run()
    return res, it


def terminals(nodes):
    """flat list of terminal nodes of a parse result (in order)"""
    out = []

    def go(n):
        if isinstance(n, T):
            out.append(n)
        else:
            for k in n.kids:
                go(k)

    for n in nodes:
        go(n)
    return out
