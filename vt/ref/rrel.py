"""Relational reference semantics of RREL (independent of textx.scoping.rrel's lazy generators).

Works on the generator's expression AST (vt.gen.rrel) and on any object graph through getattr.
A state is (obj, i, path, fresh): current object, number of name parts consumed, tuple of named
objects traversed, and whether no model element has been processed yet (a path that begins with a
navigation starts at the model root, '.', '..', parent(T), '^' start at the referencing object).

  result(alt) = { (obj, path) | (obj, len(names), path, _) in [[alt]]({(start, 0, (), True)}) and obj conforms }

Sets are finite: objects are finite, i <= len(names), and a path grows only when i grows.
"""


def root_of(o):
    while hasattr(o, "parent"):
        o = o.parent
    return o


def _listify(v):
    if v is None:
        return []
    if isinstance(v, (list, tuple)):
        return [x for x in v if x is not None]
    return [v]


class Sem:
    def __init__(self, names, conforms, type_of):
        """names: list of name parts; conforms(obj) -> bool for the target class;
        type_of(obj, type_name) -> bool (textx_isinstance against a rule name) for parent(T)"""
        self.names = names
        self.conforms = conforms
        self.type_of = type_of

    # each evaluator maps a set of states to a set of states; states are tuples
    # (id-keyed) (obj, i, path(tuple of objs), fresh)
    @staticmethod
    def key(s):
        o, i, path, fresh = s
        return (id(o), i, tuple(id(p) for p in path), fresh)

    def nav(self, e, states):
        out = {}
        for (o, i, path, fresh) in states.values():
            src = root_of(o) if fresh else o
            if e["consume"] and i >= len(self.names):
                continue
            if not hasattr(src, e["name"]):
                continue
            vals = _listify(getattr(src, e["name"]))
            if e["fixed"] is not None:
                fixed = e["fixed"][1]
                for v in vals:
                    if getattr(v, "name", None) == fixed:
                        s = (v, i, path + (v,), False)
                        out[self.key(s)] = s
            elif e["consume"]:
                for v in vals:
                    if getattr(v, "name", None) == self.names[i]:
                        s = (v, i + 1, path + (v,), False)
                        out[self.key(s)] = s
            else:
                for v in vals:
                    s = (v, i, path, False)
                    out[self.key(s)] = s
        return out

    def dots(self, k, states):
        out = {}
        for (o, i, path, fresh) in states.values():
            n = k
            while n > 1 and hasattr(o, "parent"):
                o = o.parent
                n -= 1
            if n <= 1:
                s = (o, i, path, False)
                out[self.key(s)] = s
        return out

    def parent(self, e, states):
        out = {}
        for (o, i, path, fresh) in states.values():
            while hasattr(o, "parent"):
                o = o.parent
                if self.type_of(o, e["type"]):
                    s = (o, i, path, False)
                    out[self.key(s)] = s
                    break
        return out

    def base(self, e, states):
        if e["k"] == "nav":
            return self.nav(e, states)
        if e["k"] == "parent":
            return self.parent(e, states)
        if e["k"] == "br":
            out = {}
            for p in e["paths"]:
                out.update(self.path(p, states))
            return out
        if e["k"] == "dots":
            return self.dots(e["n"], states)
        raise ValueError(e)

    def star(self, e, states):
        """least set containing the zero-iteration states and closed under one more application of e"""
        loc, rt = starts(e)
        result = {}
        for s in states.values():
            o, i, path, fresh = s
            if fresh:
                if loc:
                    z = (o, i, path, False)
                    result[self.key(z)] = z
                if rt:
                    z = (root_of(o), i, path, False)
                    result[self.key(z)] = z
            else:
                result[self.key(s)] = s
        # one application from the original states (fresh ones keep their freshness for the first step)
        work = self.base(e, states)
        while work:
            new = {k: v for k, v in work.items() if k not in result}
            if not new:
                break
            result.update(new)
            work = self.base(e, new)
        return result

    def elem(self, e, states):
        if e.get("star"):
            return self.star(e, states)
        return self.base(e, states)

    def path(self, p, states):
        elems = []
        if p["lead"] == "^":
            elems.append({"k": "br", "star": True,
                          "paths": [{"lead": 2, "elems": []}]})
        elif p["lead"] is not None:
            elems.append({"k": "dots", "n": p["lead"], "star": False})
        elems += p["elems"]
        cur = states
        for e in elems:
            cur = self.elem(e, cur)
            if not cur:
                return {}
        return cur

    def results(self, alt, start):
        """set of (obj, path) final results of one top-level alternative"""
        s0 = (start, 0, (), True)
        fin = self.path(alt, {self.key(s0): s0})
        out = []
        for (o, i, path, fresh) in fin.values():
            if i == len(self.names) and self.conforms(o):
                out.append((o, path))
        return out


def starts(e):
    """(starts locally?, starts at root?) of a path element / bracket, as documented:
    navigation starts at the model root; dots, parent(T) and '^' start at the current object"""
    k = e["k"]
    if k == "nav":
        return (False, True)
    if k in ("parent", "dots"):
        return (True, False)
    loc = rt = False
    for p in e["paths"]:
        pl, pr = path_starts(p)
        loc, rt = loc or pl, rt or pr
    return (loc, rt)


def path_starts(p):
    if p["lead"] is not None:
        return (True, False)
    return starts(p["elems"][0])


def mixed_leading_star(expr):
    """does some path begin with a starred element (or bracket) whose body mixes local and root starts?
    (unspecified by the documentation; excluded and counted by the checks)"""

    def first_mixed(p):
        if p["lead"] is not None:
            return False
        e = p["elems"][0]
        if e["k"] == "br":
            loc, rt = starts(e)
            if loc and rt:
                return True
            return any(first_mixed(q) for q in e["paths"])
        return False

    return any(first_mixed(p) for p in expr["paths"])
