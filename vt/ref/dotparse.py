"""A small recursive-descent parser for the DOT language (enough to decide well-formedness and to list
node statements with their attributes).  Written from the Graphviz grammar:

  graph     : [strict] (graph | digraph) [ID] '{' stmt_list '}'
  stmt_list : [stmt [';'] stmt_list]
  stmt      : node_stmt | edge_stmt | attr_stmt | ID '=' ID | subgraph
  attr_stmt : (graph | node | edge) attr_list
  attr_list : '[' [a_list] ']' [attr_list]
  a_list    : ID '=' ID [(';' | ',')] [a_list]
  edge_stmt : (node_id | subgraph) edgeRHS [attr_list]
  edgeRHS   : edgeop (node_id | subgraph) [edgeRHS]
  node_stmt : node_id [attr_list]
  node_id   : ID [port]          port : ':' ID [':' compass_pt]
  subgraph  : [subgraph [ID]] '{' stmt_list '}'
  ID        : [a-zA-Z\\200-\\377_][a-zA-Z\\200-\\377_0-9]* | numeral | "quoted with \\" escapes" | <html>
"""
import re


class DotError(Exception):
    pass


TOK = re.compile(r"""
    (?P<ws>\s+|//[^\n]*|/\*.*?\*/|^\#[^\n]*)
  | (?P<num>-?(?:\.[0-9]+|[0-9]+(?:\.[0-9]*)?))
  | (?P<id>[A-Za-z_\u0080-￿][A-Za-z_0-9\u0080-￿]*)
  | (?P<op>->|--|[{}\[\]=;,:+])
""", re.X | re.S | re.M)


def tokenize(s):
    toks = []
    i, n = 0, len(s)
    while i < n:
        c = s[i]
        if c == '"':
            j = i + 1
            buf = []
            while True:
                if j >= n:
                    raise DotError(f"unterminated string starting at offset {i}")
                if s[j] == "\\" and j + 1 < n:
                    buf.append(s[j:j + 2])
                    j += 2
                    continue
                if s[j] == '"':
                    break
                buf.append(s[j])
                j += 1
            toks.append(("str", "".join(buf), i))
            i = j + 1
            continue
        if c == "<":
            depth, j = 0, i
            while j < n:
                if s[j] == "<":
                    depth += 1
                elif s[j] == ">":
                    depth -= 1
                    if depth == 0:
                        break
                j += 1
            if j >= n:
                raise DotError(f"unterminated HTML string starting at offset {i}")
            toks.append(("html", s[i + 1:j], i))
            i = j + 1
            continue
        m = TOK.match(s, i)
        if not m:
            raise DotError(f"unexpected character {c!r} at offset {i}")
        if m.lastgroup != "ws":
            toks.append((m.lastgroup, m.group(), i))
        i = m.end()
    return toks


class Parser:
    def __init__(self, text):
        self.t = tokenize(text)
        self.i = 0
        self.nodes = {}  # node id -> attrs dict (last statement wins; count kept separately)
        self.node_stmts = []  # (id, attrs)
        self.edges = []

    def peek(self, k=0):
        return self.t[self.i + k] if self.i + k < len(self.t) else ("eof", "", -1)

    def eat(self, kind=None, val=None):
        tk = self.peek()
        if (kind and tk[0] != kind) or (val is not None and tk[1] != val):
            raise DotError(f"expected {val or kind}, found {tk[1]!r} at offset {tk[2]}")
        self.i += 1
        return tk

    def is_id(self, tk):
        return tk[0] in ("id", "num", "str", "html")

    def kw(self, tk, word):
        return tk[0] == "id" and tk[1].lower() == word

    def graph(self):
        if self.kw(self.peek(), "strict"):
            self.eat()
        tk = self.eat("id")
        if tk[1].lower() not in ("graph", "digraph"):
            raise DotError(f"expected graph or digraph, found {tk[1]!r}")
        if self.is_id(self.peek()):
            self.eat()
        self.eat("op", "{")
        self.stmt_list()
        self.eat("op", "}")
        if self.peek()[0] != "eof":
            raise DotError(f"trailing input at offset {self.peek()[2]}")
        return self

    def stmt_list(self):
        while self.peek()[0] != "eof" and self.peek()[1] != "}":
            self.stmt()
            if self.peek()[1] == ";":
                self.eat()

    def attr_list(self):
        attrs = {}
        while self.peek()[1] == "[" and self.peek()[0] == "op":
            self.eat()
            while self.peek()[1] != "]":
                k = self.peek()
                if not self.is_id(k):
                    raise DotError(f"expected attribute name, found {k[1]!r} at offset {k[2]}")
                self.eat()
                self.eat("op", "=")
                v = self.peek()
                if not self.is_id(v):
                    raise DotError(f"expected attribute value, found {v[1]!r} at offset {v[2]}")
                self.eat()
                attrs[k[1]] = v
                if self.peek()[1] in (";", ",") and self.peek()[0] == "op":
                    self.eat()
            self.eat("op", "]")
        return attrs

    def subgraph(self):
        if self.kw(self.peek(), "subgraph"):
            self.eat()
            if self.is_id(self.peek()):
                self.eat()
        self.eat("op", "{")
        self.stmt_list()
        self.eat("op", "}")

    def node_id(self):
        tk = self.peek()
        if not self.is_id(tk):
            raise DotError(f"expected a node id, found {tk[1]!r} at offset {tk[2]}")
        self.eat()
        while self.peek()[1] == ":" and self.peek()[0] == "op":
            self.eat()
            self.eat()
        return tk[1]

    def stmt(self):
        tk = self.peek()
        if tk[1] == "{" or self.kw(tk, "subgraph"):
            self.subgraph()
            first = None
        elif tk[0] == "id" and tk[1].lower() in ("graph", "node", "edge") and self.peek(1)[1] == "[":
            self.eat()
            self.attr_list()
            return
        elif self.is_id(tk) and self.peek(1)[1] == "=" and self.peek(1)[0] == "op":
            self.eat()
            self.eat()
            v = self.peek()
            if not self.is_id(v):
                raise DotError(f"expected a value, found {v[1]!r} at offset {v[2]}")
            self.eat()
            return
        else:
            first = self.node_id()
        if self.peek()[1] in ("->", "--") and self.peek()[0] == "op":
            ends = [first]
            while self.peek()[1] in ("->", "--") and self.peek()[0] == "op":
                self.eat()
                if self.peek()[1] == "{" or self.kw(self.peek(), "subgraph"):
                    self.subgraph()
                    ends.append(None)
                else:
                    ends.append(self.node_id())
            attrs = self.attr_list()
            self.edges.append((ends, attrs))
        elif first is not None:
            attrs = self.attr_list()
            self.node_stmts.append((first, attrs))
            self.nodes.setdefault(first, {}).update(attrs)


def parse(text):
    return Parser(text).graph()


def record_label_balanced(label):
    """unescaped { } of a record label must be balanced and never close below zero"""
    depth = 0
    i = 0
    while i < len(label):
        c = label[i]
        if c == "\\":
            i += 2
            continue
        if c == "{":
            depth += 1
        elif c == "}":
            depth -= 1
            if depth < 0:
                return False
        i += 1
    return depth == 0


def record_label_error(label):
    """None when label is a well-formed Graphviz record label, else a reason.  Follows parse_reclbl of Graphviz
    (lib/common/shapes.c): a backslash takes the next character literally; '{' may only open a field; at most one
    '<port>' per field and '>' only closes a port; after a nested '{...}' only blanks may follow in the field;
    braces must balance (Graphviz itself silently truncates at a surplus top-level '}' - reported here as well,
    because the rest of the label is lost)."""
    n = len(label)
    pos = [0]

    def table(top):
        # modes of the current field
        hastext = hasport = inport = hastable = False
        while True:
            i = pos[0]
            c = label[i] if i < n else None
            if c == "\\":
                if i + 1 < n:
                    nxt = label[i + 1]
                    pos[0] = i + 2
                    if hastable and nxt != " ":
                        return "text after a nested table"
                    if not inport and nxt != " ":
                        hastext = True
                    continue
                c = "\\"  # trailing backslash is text
            if c == "{":
                if hastext or hasport or inport or hastable:
                    return f"'{{' inside a field at offset {i}"
                pos[0] = i + 1
                err = table(False)
                if err:
                    return err
                hastable = True
                continue
            if c in ("}", "|", None):
                if c is None and not top:
                    return "unterminated '{'"
                if inport:
                    return f"unterminated '<port' at offset {i}"
                if c is None:
                    return None
                pos[0] = i + 1
                if c == "}":
                    if top:
                        return f"surplus '}}' at offset {i}"
                    return None
                hastext = hasport = inport = hastable = False
                continue
            if c == "<":
                if hastable or hasport:
                    return f"second '<' in a field at offset {i}"
                hasport = inport = True
                pos[0] = i + 1
                continue
            if c == ">":
                if not inport:
                    return f"'>' outside a port at offset {i}"
                inport = False
                pos[0] = i + 1
                continue
            if hastable and c != " ":
                return f"text after a nested table at offset {i}"
            if not inport and c != " ":
                hastext = True
            pos[0] = i + 1

    return table(True)


def first_field(label):
    """first field of a record label '{name|...}' with escapes kept"""
    s = label
    if s.startswith("{"):
        s = s[1:]
    out = []
    i = 0
    while i < len(s):
        if s[i] == "\\":
            out.append(s[i:i + 2])
            i += 2
            continue
        if s[i] in "|}":
            break
        out.append(s[i])
        i += 1
    return "".join(out)
