"""Switches for recorded defects of the parsing engine (Arpeggio), used to attribute a disagreement causally:
the same input is parsed again with the engine feature turned off, and the disagreement is attributed to the
recorded finding only if it disappears."""
import contextlib


@contextlib.contextmanager
def no_comment_cache():
    """Arpeggio remembers where the comments after a position end (Parser.comment_positions), keyed by position only
    - not by the whitespace mode (ws / eolterm) in force when the entry was made (finding F-C01d).  Inside this
    context nothing is remembered: comments are parsed again at every terminal."""
    from arpeggio import Parser

    class Never(dict):
        def __contains__(self, k):
            return False

        def __setitem__(self, k, v):
            pass

    marker = object()
    old = Parser.__dict__.get("comment_positions", marker)
    Parser.comment_positions = property(lambda self: Never(), lambda self, v: None)
    try:
        yield
    finally:
        if old is marker:
            del Parser.comment_positions
        else:
            Parser.comment_positions = old
