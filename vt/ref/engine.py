"""Switches for recorded defects of the parsing engine (Arpeggio), used to attribute a disagreement causally:
the same input is parsed again with the engine feature turned off, and the disagreement is attributed to the
recorded finding only if it disappears."""
import contextlib


@contextlib.contextmanager
def no_comment_cache():
    """Arpeggio remembers where the comments after a position end (Parser.comment_positions), keyed by position only
    - not by the whitespace mode (ws / eolterm) in force when the entry was made (finding F-C01d).  Inside this
    context nothing is remembered: comments are parsed again at every terminal."""
    from arpeggio import Parser

    class Never(dict):
        def __contains__(self, k):
            return False

        def __setitem__(self, k, v):
            pass

    marker = object()
    old = Parser.__dict__.get("comment_positions", marker)
    Parser.comment_positions = property(lambda self: Never(), lambda self, v: None)
    try:
        yield
    finally:
        if old is marker:
            del Parser.comment_positions
        else:
            Parser.comment_positions = old


@contextlib.contextmanager
def mode_aware_memoization():
    """Arpeggio's packrat cache (ParsingExpression._result_cache) is keyed by position only - not by the whitespace
    mode (skipws / ws / eolterm) in force when the entry was made (finding F-C19a).  Inside this context every
    expression keeps one cache per whitespace mode, i.e. memoization as it would be with a complete key."""
    from arpeggio import ParsingExpression

    store = {}  # id(expression) -> {mode -> {position -> result}}
    cur = {"parser": None}
    orig_parse = ParsingExpression.parse

    def parse(self, parser):
        cur["parser"] = parser
        return orig_parse(self, parser)

    def getter(self):
        p = cur["parser"]
        mode = (p.skipws, p.ws, p.eolterm) if p is not None else None
        return store.setdefault(id(self), {}).setdefault(mode, {})

    def setter(self, value):
        store[id(self)] = {}

    marker = object()
    old = ParsingExpression.__dict__.get("_result_cache", marker)
    ParsingExpression._result_cache = property(getter, setter)
    ParsingExpression.parse = parse
    try:
        yield
    finally:
        ParsingExpression.parse = orig_parse
        if old is marker:
            del ParsingExpression._result_cache
        else:
            ParsingExpression._result_cache = old
