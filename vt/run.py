"""Dispatcher: ./check <ID> [quick|thorough] | ./check <ID> --replay <file>

Parent process: replays the regression inputs of the property, starts the
worker processes (fresh interpreters, one shard each), merges what they
collected, shrinks one witness per unknown bucket, writes the evidence file and
prints the verdict lines.
"""
from __future__ import annotations

import glob
import importlib
import json
import os
import subprocess
import sys
import time

from vt import harness, known
from vt.harness import VERIF

BUDGET = {"quick": 240, "thorough": 1500}  # seconds of generation per worker: a safety net, quick tiers are sized to finish their CASES well before it
SHRINK_BUDGET = {"quick": 25, "thorough": 240}
MAX_SHRINK_BUCKETS = 4


def load_check(ident):
    return importlib.import_module("vt.checks." + ident.lower())


def nworkers():
    try:
        n = len(os.sched_getaffinity(0))
    except Exception:  # noqa: BLE001
        n = os.cpu_count() or 1
    return max(1, min(16, int(os.environ.get("VERIF_WORKERS", n))))


def worker_main(argv):
    ident, tier, seed, shard, nshards, budget, outpath = argv[:7]
    mod = load_check(ident)
    harness.assert_repo()
    if len(argv) > 7 and argv[7] == "--shrink":
        bucket, casefile = argv[8], argv[9]
        first = json.load(open(casefile))
        harness.shrink(mod, tier, int(seed), int(shard), int(nshards), bucket, outpath, first)
        return 0
    col = harness.collect(mod, tier, int(seed), int(shard), int(nshards), float(budget))
    with open(outpath, "w") as f:
        json.dump(col.to_json(), f)
    return 0


def eval_replay(mod, path):
    """returns (data, outcome)"""
    data = json.load(open(path))
    out = harness.run_case(mod, data["case"])
    return data, out


def write_replay(ident, bucket, case, detail, seed, tier):
    d = os.path.join(VERIF, "out", "replay", ident)
    os.makedirs(d, exist_ok=True)
    import hashlib

    name = hashlib.sha1(bucket.encode()).hexdigest()[:10] + ".json"
    p = os.path.join(d, name)
    with open(p, "w") as f:
        json.dump(
            {"property": ident, "bucket": bucket, "detail": detail, "seed": seed, "tier": tier,
             "expect": "violation", "case": case}, f, indent=1, default=str)
    return os.path.relpath(p, VERIF)


def main(argv=None):
    argv = list(sys.argv[1:] if argv is None else argv)
    if argv and argv[0] == "--worker":
        return worker_main(argv[1:])
    if not argv:
        print(__doc__)
        return 2
    ident = argv[0].upper()
    mod = load_check(ident)
    harness.assert_repo()
    kn = known.Known(ident)

    if len(argv) >= 3 and argv[1] == "--replay":
        data, out = eval_replay(mod, argv[2])
        if out.inconclusive:
            print(f"replay inconclusive: {out.inconclusive}")
            return 0
        bad = [(b, d) for b, d in out.disc if not kn.is_known(b)]
        for b, d in out.disc:
            print(f"discrepancy bucket={b} :: {d}")
        if bad:
            print(f"VIOLATION property={ident} replay={argv[2]}")
            return 1
        for b, d in out.disc:
            print(f"KNOWN-FINDING: property={ident} {kn.what(b)}")
        print("replay: no unknown discrepancy")
        return 0

    tier = argv[1] if len(argv) > 1 else os.environ.get("VERIF_TIER", "quick")
    if tier not in ("quick", "thorough"):
        print("tier must be quick or thorough")
        return 2
    seed = int(os.environ.get("VERIF_SEED", "1"))
    t0 = time.time()
    violations = []  # (bucket, replay path)
    notes = []

    # 1. regression tier: stored inputs
    replayed = 0
    known_seen = set()
    for p in sorted(glob.glob(os.path.join(VERIF, "replay", ident, "*.json"))):
        data, out = eval_replay(mod, p)
        replayed += 1
        expect = data.get("expect", "pass")
        got = {b for b, _ in out.disc}
        if expect.startswith("known:"):
            fid = expect.split(":", 1)[1]
            kb = kn.bucket_of(fid)
            if kb is None:
                notes.append(f"replay {os.path.basename(p)} refers to unlisted finding {fid}")
            elif kb & got:
                known_seen.add(fid)
            else:
                notes.append(f"known finding {fid} no longer reproduces from {os.path.basename(p)}")
        for b in sorted(got):
            if not kn.is_known(b):
                violations.append((b, os.path.relpath(p, VERIF)))

    # the replays above ran in this process under the case watchdog, which leaves the generation watchdog armed
    harness.disarm()

    # 2. generation in fresh worker processes
    nw = nworkers()
    budget = float(os.environ.get("VERIF_BUDGET_S", BUDGET[tier]))
    outdir = os.path.join(VERIF, "out", "work", ident)
    os.makedirs(outdir, exist_ok=True)
    procs = []
    for k in range(nw):
        op = os.path.join(outdir, f"w{k}.json")
        if os.path.exists(op):
            os.unlink(op)
        cmd = [sys.executable, "-m", "vt.run", "--worker", ident, tier, str(seed), str(k), str(nw), str(budget), op]
        # output goes to files: a worker never blocks on a full pipe while the parent waits for another one
        procs.append((k, op, subprocess.Popen(cmd, stdout=open(op + ".out", "w"), stderr=open(op + ".err", "w"))))
    merged = harness.Collector()
    merged.nontrivial_hashes = set()
    harness_errors = []
    killed = 0
    exhaustive = None
    hard = budget + 200  # a worker that neither finishes nor stops at its budget is killed (its part is reported lost)
    finish, dead = {}, set()
    while True:
        now = time.time() - t0
        for k, op, pr in procs:
            if k not in finish and k not in dead and pr.poll() is not None:
                finish[k] = now
        running = [(k, pr) for k, op, pr in procs if k not in finish and k not in dead]
        if not running:
            break
        straggling = False
        if finish and len(finish) >= nw - 2:
            # all but one or two workers are done: a worker that needs more than twice the median time (and more than a
            # minute) beyond the last finisher is stuck - its part is reported lost instead of waiting for the hard limit
            med = sorted(finish.values())[len(finish) // 2]
            straggling = now - max(finish.values()) > max(60, 2 * med)
        if now > hard or straggling:
            for k, pr in running:
                pr.kill()
                pr.wait()
                dead.add(k)
                killed += 1
            break
        time.sleep(0.2)
    for k, op, pr in procs:
        if k in dead:
            continue
        try:
            se = open(op + ".err").read()
        except OSError:
            se = ""
        if pr.returncode != 0 or not os.path.exists(op):
            harness_errors.append(f"worker {k} rc={pr.returncode}: {se[-3000:]}")
            continue
        d = json.load(open(op))
        merged.evaluations += d["evaluations"]
        merged.nontrivial_hashes.update(d["nontrivial_hashes"])
        for c, n in d["classes"].items():
            merged.classes[c] = merged.classes.get(c, 0) + n
        for r, n in d["inconclusive"].items():
            merged.inconclusive[r] = merged.inconclusive.get(r, 0) + n
        for b, e in d["buckets"].items():
            e["shard"] = k
            m = merged.buckets.get(b)
            if m is None:
                merged.buckets[b] = e
            else:
                m["count"] += e["count"]
                if len(harness.canon(e["first_case"])) < len(harness.canon(m["first_case"])):
                    cnt = m["count"]
                    merged.buckets[b] = e
                    e["count"] = cnt
        merged.samples.extend(d["samples"][:2])
        merged.budget_exhausted |= d["budget_exhausted"]
        if d["exhaustive_done"] is not None:
            exhaustive = d["exhaustive_done"] if exhaustive is None else (exhaustive and d["exhaustive_done"])
    if not harness_errors and merged.evaluations == 0:
        harness_errors.append(f"no case was evaluated ({killed} workers killed by the watchdog)")
    if harness_errors:
        for h in harness_errors:
            print("HARNESS-ERROR:", h)
        return 2

    # 3. triage buckets
    excluded_known = {}
    unknown = []
    for b, e in sorted(merged.buckets.items()):
        if kn.is_known(b):
            excluded_known[b] = e["count"]
            known_seen.add(kn.id_of(b))
        else:
            unknown.append((b, e))

    # 4. shrink one witness per unknown bucket (bounded), write replay files
    shrunk = 0
    for i, (b, e) in enumerate(unknown):
        case, detail = e["first_case"], e["detail"]
        if i < MAX_SHRINK_BUCKETS and e.get("origin") == "gen" and hasattr(mod, "strategy") \
                and not os.environ.get("VERIF_NO_SHRINK"):
            cf = os.path.join(outdir, f"shrink{i}.in.json")
            of = os.path.join(outdir, f"shrink{i}.out.json")
            json.dump(case, open(cf, "w"))
            if os.path.exists(of):
                os.unlink(of)
            cmd = [sys.executable, "-m", "vt.run", "--worker", ident, tier, str(seed), str(e["shard"]), str(nw),
                   "0", of, "--shrink", b, cf]
            try:
                subprocess.run(cmd, timeout=SHRINK_BUDGET[tier], stdout=subprocess.DEVNULL, stderr=subprocess.DEVNULL)
            except subprocess.TimeoutExpired:
                pass
            if os.path.exists(of):
                try:
                    r = json.load(open(of))
                    if len(harness.canon(r["case"])) <= len(harness.canon(case)):
                        case = r["case"]
                        detail = r["detail"] or detail
                        shrunk += 1
                except Exception:  # noqa: BLE001
                    pass
        violations.append((b, write_replay(ident, b, case, detail, seed, tier)))

    # 5. evidence
    ev = {
        "property_id": ident,
        "tier": tier,
        "seed": seed,
        "level": mod.LEVEL,
        "wall_s": round(time.time() - t0, 2),
        "violations": len(violations),
        "assumptions": list(getattr(mod, "ASSUMPTIONS", [])),
        "coverage": {
            "evaluations": merged.evaluations + replayed,
            "distinct_nontrivial": len(merged.nontrivial_hashes),
            "rule": mod.RULE,
            "samples": merged.samples[:10],
            "classes": dict(sorted(merged.classes.items())),
            "replayed_regression_inputs": replayed,
            "excluded_known": excluded_known,
            "unknown_buckets": {b: e["count"] for b, e in unknown},
            "inconclusive": merged.inconclusive,
            "workers": nw,
            "workers_killed_by_watchdog": killed,
            "shrunk": shrunk,
            "budget_exhausted": merged.budget_exhausted,
            "notes": notes,
        },
    }
    if exhaustive is not None:
        ev["coverage"]["exhaustive"] = bool(exhaustive)
    extra = getattr(mod, "evidence_extra", None)
    if extra:
        ev["coverage"].update(extra(tier))
    # a run against a scratch tree (VERIF_REPO) is not evidence about /repo
    evdir = os.path.join(VERIF, "evidence") if harness.REPO == os.path.realpath("/repo") \
        else os.path.join(VERIF, "out", "evidence-scratch")
    os.makedirs(evdir, exist_ok=True)
    with open(os.path.join(evdir, ident + ".json"), "w") as f:
        json.dump(ev, f, indent=1, default=str)

    # 6. verdict
    print(f"{ident} {tier} seed={seed}: evaluations={ev['coverage']['evaluations']} "
          f"nontrivial={ev['coverage']['distinct_nontrivial']} wall={ev['wall_s']}s "
          f"inconclusive={sum(merged.inconclusive.values())} killed={killed}")
    for n in notes:
        print("NOTE:", n)
    for fid, what in kn.listed():
        tag = "" if fid in known_seen else " (not reproduced in this run)"
        print(f"KNOWN-FINDING: property={ident} {fid}: {what}{tag}")
    if violations:
        for b, p in violations:
            print(f"discrepancy bucket={b}")
            print(f"VIOLATION property={ident} replay={p}")
        return 1
    return 0


if __name__ == "__main__":
    try:
        sys.exit(main())
    except harness.HarnessError as e:
        print("HARNESS-ERROR:", e)
        sys.exit(2)
    except Exception:  # noqa: BLE001
        import traceback

        traceback.print_exc()
        print("HARNESS-ERROR: unexpected exception in the dispatcher")
        sys.exit(2)
