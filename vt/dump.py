"""Canonical structural dumps of textX models and of reference models, and their comparison.

dump := None | {"p": python type name, "v": value} | [dump, ...] | {"cls": name, "attrs": {name: dump}}
        | {"ref": name}
"""
from vt.ref.peg import Obj

PRIMS = (str, int, float, bool)


def prim(v):
    return {"p": type(v).__name__, "v": v}


def dump_textx(o, seen=None, parent=None, problems=None):
    """dump of a textX model object graph following containment (grammar attributes only)"""
    if seen is None:
        seen = set()
    if o is None:
        return None
    if isinstance(o, PRIMS):
        return prim(o)
    if isinstance(o, list):
        return [dump_textx(x, seen, parent, problems) for x in o]
    cls = type(o)
    if not hasattr(cls, "_tx_attrs"):
        return {"p": "?", "v": repr(o)}
    if id(o) in seen:
        return {"cycle": cls.__name__}
    seen.add(id(o))
    if problems is not None:
        has_parent = hasattr(o, "parent")
        if parent is None and has_parent:
            problems.append(f"root object of class {cls.__name__} has a parent attribute")
        if parent is not None and (not has_parent or o.parent is not parent):
            problems.append(f"object of class {cls.__name__} does not have its container as parent")
    d = {"cls": cls.__name__, "attrs": {}}
    for name, attr in cls._tx_attrs.items():
        v = getattr(o, name, "<missing>")
        if attr.ref and not attr.cont:
            if isinstance(v, list):
                d["attrs"][name] = [{"ref": getattr(x, "name", repr(x))} for x in v]
            else:
                d["attrs"][name] = None if v is None else {"ref": getattr(v, "name", repr(v))}
        else:
            d["attrs"][name] = dump_textx(v, seen, o, problems)
    return d


def dump_ref(o):
    if o is None:
        return None
    if isinstance(o, PRIMS):
        return prim(o)
    if isinstance(o, list):
        return [dump_ref(x) for x in o]
    if isinstance(o, tuple) and o and o[0] == "ref":
        return {"ref": o[2]}
    if isinstance(o, Obj):
        return {"cls": o.cls, "attrs": {k: dump_ref(v) for k, v in o.attrs.items()}}
    return {"p": "?", "v": repr(o)}


def shape(x):
    if x is None:
        return "none"
    if isinstance(x, list):
        return "list"
    if "cls" in x:
        return "object"
    if "p" in x:
        return "value"
    return "ref"


def diff(a, b, path="model"):
    """first difference between a textX dump `a` and a reference dump `b`: (kind, path, detail) or None"""
    sa, sb = shape(a), shape(b)
    if sa != sb:
        if "list" in (sa, sb):
            return ("list_vs_scalar", path, f"{a!r} vs {b!r}")
        if "none" in (sa, sb):
            return ("missing_value", path, f"{a!r} vs {b!r}")
        return ("object_vs_value", path, f"{a!r} vs {b!r}")
    if sa == "none":
        return None
    if sa == "object":
        if a["cls"] != b["cls"]:
            return ("class", path, f"{a['cls']} vs {b['cls']}")
        ka, kb = set(a["attrs"]), set(b["attrs"])
        if ka != kb:
            return ("attribute_set", path, f"{sorted(ka)} vs {sorted(kb)}")
        for k in a["attrs"]:
            d = diff(a["attrs"][k], b["attrs"][k], f"{path}.{k}")
            if d:
                return d
        return None
    if sa == "list":
        if len(a) != len(b):
            return ("list_length", path, f"{a!r} vs {b!r}")
        for i, (x, y) in enumerate(zip(a, b)):
            d = diff(x, y, f"{path}[{i}]")
            if d:
                return d
        return None
    if sa == "value":
        if a["p"] != b["p"]:
            return ("value_type", path, f"{a!r} vs {b!r}")
        if a["v"] != b["v"]:
            return ("value", path, f"{a!r} vs {b!r}")
        return None
    return None if a == b else ("reference", path, f"{a!r} vs {b!r}")
