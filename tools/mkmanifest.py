#!/venv/bin/python
"""Regenerate MANIFEST.json from the check modules present in vt/checks."""
import importlib, json, os, sys
here = os.path.dirname(os.path.dirname(os.path.realpath(__file__)))
sys.path.insert(0, here)
props = [json.loads(l) for l in open(os.path.join(here, "properties.jsonl"))]
na_file = os.path.join(here, "not_applicable.json")
na_reasons = json.load(open(na_file)) if os.path.exists(na_file) else {}
checks, na = [], []
for p in props:
    pid = p["id"]
    if not os.path.exists(os.path.join(here, "vt", "checks", pid.lower() + ".py")):
        na.append({"property_id": pid, "reason": na_reasons.get(pid, "no check registered yet (machinery for this property is still being built)")})
        continue
    m = importlib.import_module("vt.checks." + pid.lower())
    checks.append({
        "property_id": pid,
        "quick_cmd": f"./check {pid} quick",
        "thorough_cmd": f"./check {pid} thorough",
        "evidence_file": f"evidence/{pid}.json",
        "replay_cmd_template": f"./check {pid} --replay {{path}}",
        "engine": "vt",
        "level_claimed": {"category": m.LEVEL, "text": m.LEVEL_TEXT, "design_ref": getattr(m, "DESIGN_REF", "DESIGN.md section 4")},
        "level_note": m.LEVEL_NOTE,
        "technique": m.TECHNIQUE,
    })
man = {
    "version": 1,
    "setup_cmd": "./setup.sh",
    "hooks": {"guard": "TEXTX_TEXTX_VERIF", "enable": "no source hooks are used: all observation goes through the public API and harness-side monkeypatching; checks import /repo's working tree directly (pure Python)",
              "baseline_off_cmd": "cd /repo && /venv/bin/python -m pytest -ra -q -p no:cacheprovider --timeout=900 --continue-on-collection-errors",
              "source_commits": [], "add_only": True},
    "engines": [{"name": "vt", "path": "vt/", "serves_properties": [c["property_id"] for c in checks],
                 "kind_free_text": "Hypothesis-driven case loop with bucketing, collect-then-shrink, replay files and known-findings matching; per-property generators and reference oracles"}],
    "checks": checks,
    "not_applicable": na,
    "notes": "All checks: ./check <ID> quick|thorough from /verif; VERIF_SEED honoured; known findings in known_findings.json; regression inputs in replay/<ID>/.",
}
json.dump(man, open(os.path.join(here, "MANIFEST.json"), "w"), indent=1)
print("checks:", [c["property_id"] for c in checks], "not_applicable:", len(na))
