#!/usr/bin/env python3
"""seedtable.py : print the markdown table of archived seeded changes (seeded/*/meta.json) used in DESIGN.md section 8.4"""
import glob, json, os
here = os.path.dirname(os.path.dirname(os.path.abspath(__file__)))
def cell(s, n):
    s = " ".join(str(s).split())
    s = s if len(s) <= n else s[: n - 1] + "…"
    return s.replace("|", "\\|")
print("| seed | change (sub-agent's summary) | caught by |")
print("|------|------------------------------|-----------|")
for d in sorted(glob.glob(os.path.join(here, "seeded", "*"))):
    m = json.load(open(os.path.join(d, "meta.json")))
    c = m.get("confirmed", {})
    print(f"| {os.path.basename(d)} | {cell(m.get('summary', ''), 160)} | {cell(c.get('caught_by', ''), 200)} |")
