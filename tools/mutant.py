#!/venv/bin/python
"""Try a check against a seeded change.

usage: mutant.py <patch.diff> <check-id>[,<check-id>...] [--demo demo.py] [--baseline] [--tier quick]

Creates a scratch worktree of /repo HEAD under /tmp/mut-<pid>, applies the patch,
optionally runs the demo on the clean and on the patched tree and the pinned suite
on the patched tree, then runs ./check <ID> with VERIF_REPO pointing at the
worktree.  The worktree is removed afterwards.  /repo itself is never touched.
"""
import os, subprocess, sys, shutil

args = sys.argv[1:]
patch = os.path.abspath(args[0])
ids = args[1].split(",")
demo = None
tier = "quick"
baseline = "--baseline" in args
if "--demo" in args:
    demo = os.path.abspath(args[args.index("--demo") + 1])
if "--tier" in args:
    tier = args[args.index("--tier") + 1]
wt = f"/tmp/mut-{os.getpid()}"
run = lambda *a, **k: subprocess.run(*a, **k)
run(["git", "-C", "/repo", "worktree", "add", "-q", "--detach", wt, "HEAD"], check=True)
rc_all = {}
try:
    if demo:
        r = run(["/venv/bin/python", demo], env=dict(os.environ, PYTHONPATH=wt), cwd=wt, capture_output=True, text=True, timeout=600)
        print(f"demo on clean tree: rc={r.returncode}")
        if r.returncode != 0:
            print(r.stdout[-1500:], r.stderr[-1500:])
    r = run(["git", "-C", wt, "apply", "--3way", patch], capture_output=True, text=True)
    if r.returncode != 0:
        r = run(["git", "-C", wt, "apply", patch], capture_output=True, text=True)
    print("apply rc=", r.returncode, r.stderr.strip()[:500])
    if r.returncode != 0:
        sys.exit(3)
    if demo:
        r = run(["/venv/bin/python", demo], env=dict(os.environ, PYTHONPATH=wt), cwd=wt, capture_output=True, text=True, timeout=600)
        print(f"demo on patched tree: rc={r.returncode}")
    if baseline:
        r = run(["/verif/tools/baseline.py", wt], capture_output=True, text=True)
        print("baseline:", r.stdout.strip().splitlines()[0] if r.stdout else r.stderr[-300:])
    for i in ids:
        env = dict(os.environ, VERIF_REPO=wt)
        r = run(["/verif/check", i, tier], env=env, capture_output=True, text=True)
        rc_all[i] = r.returncode
        lines = [l for l in r.stdout.splitlines() if l.startswith(("VIOLATION", "discrepancy", "HARNESS", "KNOWN", i))]
        print(f"--- check {i} {tier}: rc={r.returncode}")
        print("\n".join(l[:300] for l in lines[:14]))
        if r.returncode == 2:
            print(r.stdout[-2000:], r.stderr[-2000:])
finally:
    run(["git", "-C", "/repo", "worktree", "remove", "--force", wt])
    shutil.rmtree(wt, ignore_errors=True)
    # evidence written by a mutant run is not evidence of the unchanged tree
print("RESULT", rc_all)
