#!/venv/bin/python
"""smoke.py <check id> <n> [seed] : run n generated cases of a check in-process, print class distribution and buckets"""
import sys, time, collections, traceback
sys.path[:0] = ["/verif", "/repo"]
import importlib
from hypothesis import given, settings, seed, HealthCheck, Phase
mod = importlib.import_module("vt.checks." + sys.argv[1].lower())
n = int(sys.argv[2]); sd = int(sys.argv[3]) if len(sys.argv) > 3 else 1
cases = []
@seed(sd)
@settings(max_examples=n, database=None, deadline=None, suppress_health_check=list(HealthCheck), phases=[Phase.generate])
@given(mod.strategy("quick"))
def t(c): cases.append(c)
t0 = time.time(); t(); print("gen %.1fs %d cases" % (time.time() - t0, len(cases)))
b = collections.Counter(); ex = {}; cl = collections.Counter(); nt = 0; inc = collections.Counter()
t0 = time.time()
from vt import harness
for c in cases:
    o = harness.run_case(mod, c)
    if o.inconclusive: inc[o.inconclusive] += 1; continue
    nt += bool(o.nontrivial)
    for x in o.classes: cl[x] += 1
    for k, d in o.disc:
        b[k] += 1
        if k not in ex or len(d) < len(ex[k]): ex[k] = d
print("eval %.1fs nontrivial %d inconclusive %s" % (time.time() - t0, nt, dict(inc)))
print(sorted(cl.items()))
for k, v in b.most_common(): print(v, k, "\n    ", ex[k][:1200])
