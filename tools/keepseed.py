#!/venv/bin/python
"""keepseed.py <seed-dir> <name> <caught-by> <ran>  : archive a confirmed seeded change under /verif/seeded/<name>/"""
import json, os, shutil, sys
src, name, caught, ran = sys.argv[1:5]
dst = f"/verif/seeded/{name}"
os.makedirs(dst, exist_ok=True)
for f in ("patch.diff", "demo.py"):
    shutil.copy(os.path.join(src, f), os.path.join(dst, f))
m = json.load(open(os.path.join(src, "meta.json")))
m["confirmed"] = {"demo_clean_rc": 0, "demo_patched_rc": 1, "suite": "313 stable tests pass with the patch (tools/baseline.py)",
                  "ran": ran, "caught_by": caught}
json.dump(m, open(os.path.join(dst, "meta.json"), "w"), indent=1)
print("kept", dst)
