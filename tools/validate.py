#!/opt/veriftools/pyvenv/bin/python
"""validate MANIFEST.json and every evidence file against the schemas"""
import glob, json, sys, jsonschema
ok = True
def v(p, s):
    global ok
    try:
        jsonschema.validate(json.load(open(p)), json.load(open(s))); print("valid  ", p)
    except Exception as e:
        ok = False; print("INVALID", p, str(e)[:300])
v("/verif/MANIFEST.json", "/root/.vp/MANIFEST.schema.json")
for p in sorted(glob.glob("/verif/evidence/*.json")):
    v(p, "/root/.vp/EVIDENCE.schema.json")
sys.exit(0 if ok else 1)
