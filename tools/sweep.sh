#!/bin/sh
# sweep.sh <tier> <budget_s> [seed] [ids...] : run checks one after another, one summary line each (used with `vp run`)
tier=$1; budget=$2; seed=${3:-1}; shift 3 2>/dev/null
ids="$*"
[ -z "$ids" ] && ids="C01 C02 C03 C04 C05 C06 C07 C08 C09 C10 C11 C12 C13 C14 C15 C16 C17 C18 C19 C20 C21 C22 C23 C24 C25 C26 C27 C28 C29 C30 C31 C32 C33 C34"
for c in $ids; do
  VERIF_SEED=$seed VERIF_BUDGET_S=$budget ./check $c $tier > sweep_$c.log 2>&1
  rc=$?
  echo "== $c rc=$rc $(grep -E "^$c $tier" sweep_$c.log | tail -1)"
  grep -E "^(VIOLATION|discrepancy|HARNESS)" sweep_$c.log | head -8
done
