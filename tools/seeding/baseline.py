#!/venv/bin/python
"""Run the repository's pinned test suite in DIR (default /repo) and compare the
set of passing tests with /root/.vp/BASELINE.json stable_pass.
usage: baseline.py [DIR]   exit 0 iff every stable_pass test passes."""
import json, os, subprocess, sys, tempfile, xml.etree.ElementTree as ET
d = sys.argv[1] if len(sys.argv) > 1 else "/repo"
base = json.load(open("/root/.vp/BASELINE.json"))
fd, junit = tempfile.mkstemp(suffix=".xml"); os.close(fd)
env = dict(os.environ); env.pop("TEXTX_TEXTX_VERIF", None)
# run with the tree's own sources first on the path (worktrees are not installed)
env["PYTHONPATH"] = d
p = subprocess.run(["/venv/bin/python", "-m", "pytest", "-q", "-p", "no:cacheprovider", "--timeout=900",
                    "--continue-on-collection-errors", "--junitxml=" + junit], cwd=d, env=env,
                   stdout=subprocess.PIPE, stderr=subprocess.STDOUT, text=True)
passed = set()
for tc in ET.parse(junit).getroot().iter("testcase"):
    if not any(c.tag in ("failure", "error", "skipped") for c in tc):
        passed.add(f"{tc.get('classname')}::{tc.get('name')}")
os.unlink(junit)
missing = sorted(set(base["stable_pass"]) - passed)
print(f"passed={len(passed)} stable_pass={len(base['stable_pass'])} missing={len(missing)}")
for m in missing[:20]:
    print("  MISSING", m)
sys.exit(1 if missing else 0)
